// C06: the block-hash accumulator (merkle.CompactMerkleTree) is a correct append-only RFC 6962
// Merkle tree: roots, predicted roots, marshal / hash-file reload, and honest inclusion and
// consistency proofs are accepted by the node's own verifiers.
//
// The reference (refTree) is written from RFC 6962 section 2.1 only and shares no code with poly.
package c06

import (
	"bytes"
	"crypto/sha256"
	"fmt"
	"math/rand"
	"os"
	"path/filepath"
	"testing"

	"verifharness/kit"
	"verifharness/kit/pk"

	"github.com/polynetwork/poly/common"
	"github.com/polynetwork/poly/merkle"
)

// ---------------------------------------------------------------------------------------------
// reference: RFC 6962 Merkle Tree Hash

type refTree struct {
	leaves [][]byte
	lh     [][32]byte
	memo   map[[2]int][32]byte
}

func newRef() *refTree { return &refTree{memo: map[[2]int][32]byte{}} }

func refLeafHash(d []byte) [32]byte {
	return sha256.Sum256(append([]byte{0x00}, d...))
}

func refNode(l, r [32]byte) [32]byte {
	b := make([]byte, 0, 65)
	b = append(b, 0x01)
	b = append(b, l[:]...)
	b = append(b, r[:]...)
	return sha256.Sum256(b)
}

func (t *refTree) add(d []byte) {
	t.leaves = append(t.leaves, append([]byte{}, d...))
	t.lh = append(t.lh, refLeafHash(d))
}

// mth(lo,hi) = MTH(D[lo:hi])
func (t *refTree) mth(lo, hi int) [32]byte {
	n := hi - lo
	if n == 0 {
		return sha256.Sum256(nil)
	}
	if n == 1 {
		return t.lh[lo]
	}
	key := [2]int{lo, hi}
	if v, ok := t.memo[key]; ok {
		return v
	}
	k := 1
	for k*2 < n {
		k *= 2
	}
	v := refNode(t.mth(lo, lo+k), t.mth(lo+k, hi))
	t.memo[key] = v
	return v
}

func (t *refTree) root(n int) [32]byte { return t.mth(0, n) }

// ---------------------------------------------------------------------------------------------

type env struct {
	r   *kit.Run
	rng *rand.Rand
	v   *merkle.MerkleVerifier
}

func u256(b []byte) common.Uint256 {
	var u common.Uint256
	copy(u[:], b)
	return u
}

func genLeaf(rng *rand.Rand, shape string, i int) []byte {
	switch shape {
	case "random32":
		b := make([]byte, 32)
		rng.Read(b)
		return b
	case "equal32":
		b := make([]byte, 32)
		b[0] = 0xab
		return b
	case "fewdistinct32":
		b := make([]byte, 32)
		b[31] = byte(rng.Intn(3))
		return b
	default: // varlen: 0..70 bytes, includes empty, 64 and 65 byte leaves that look like node preimages
		var n int
		switch rng.Intn(6) {
		case 0:
			n = 0
		case 1:
			n = 64
		case 2:
			n = 65
		default:
			n = rng.Intn(71)
		}
		b := make([]byte, n)
		rng.Read(b)
		if n == 65 {
			b[0] = 0x01
		}
		return b
	}
}

// checkProofsAt verifies, against tree (which must have size >= n), every inclusion proof of
// size n (all i) and every consistency proof (m, n) for m in 1..n with the node's own verifiers.
func (e *env) checkProofsAt(tree *merkle.CompactMerkleTree, ref *refTree, n int, tag string, shape string) {
	r := e.r
	rootN := common.Uint256(ref.root(n))
	for i := 0; i < n; i++ {
		var proof []common.Uint256
		var err error
		if p := kit.Catch(func() { proof, err = tree.InclusionProof(uint32(i), uint32(n)) }); p != nil {
			r.Violation("inclusion-proof-panic:"+tag, fmt.Sprintf("shape=%s InclusionProof(%d,%d) panicked: %v", shape, i, n, p), map[string]interface{}{"i": i, "n": n, "shape": shape})
			continue
		}
		r.Eval(1)
		if err != nil {
			r.Violation("inclusion-proof-error:"+tag, fmt.Sprintf("shape=%s InclusionProof(%d,%d): %v", shape, i, n, err), map[string]interface{}{"i": i, "n": n, "shape": shape})
			continue
		}
		if err := e.v.VerifyLeafHashInclusion(common.Uint256(ref.lh[i]), uint32(i), proof, rootN, uint32(n)); err != nil {
			r.Violation("honest-inclusion-rejected:"+tag, fmt.Sprintf("shape=%s i=%d n=%d: %v", shape, i, n, err), map[string]interface{}{"i": i, "n": n, "shape": shape, "leaves": hexAll(ref.leaves[:n])})
		} else {
			r.Count("inclusion_accepted", 1)
		}
		if err := e.v.VerifyLeafInclusion(ref.leaves[i], uint32(i), proof, rootN, uint32(n)); err != nil {
			r.Violation("honest-leaf-inclusion-rejected:"+tag, fmt.Sprintf("shape=%s i=%d n=%d: %v", shape, i, n, err), map[string]interface{}{"i": i, "n": n, "shape": shape})
		}
		// path-form proof through MerkleProve
		var path []byte
		if p := kit.Catch(func() { path, err = tree.MerkleInclusionLeafPath(ref.leaves[i], uint32(i), uint32(n)) }); p != nil {
			r.Violation("leafpath-panic:"+tag, fmt.Sprintf("shape=%s MerkleInclusionLeafPath(%d,%d) panicked: %v", shape, i, n, p), map[string]interface{}{"i": i, "n": n, "shape": shape})
			continue
		}
		r.Eval(1)
		if err != nil {
			r.Violation("leafpath-error:"+tag, fmt.Sprintf("shape=%s MerkleInclusionLeafPath(%d,%d): %v", shape, i, n, err), map[string]interface{}{"i": i, "n": n})
			continue
		}
		val, err := merkle.MerkleProve(path, rootN[:])
		if err != nil {
			r.Violation("honest-leafpath-rejected:"+tag, fmt.Sprintf("shape=%s i=%d n=%d: %v", shape, i, n, err), map[string]interface{}{"i": i, "n": n, "shape": shape, "path": kit.Hex(path)})
		} else if !bytes.Equal(val, ref.leaves[i]) {
			r.Violation("leafpath-wrong-value:"+tag, fmt.Sprintf("shape=%s i=%d n=%d got %x want %x", shape, i, n, val, ref.leaves[i]), map[string]interface{}{"i": i, "n": n})
		} else {
			r.Count("leafpath_accepted", 1)
		}
		r.Distinct("incl", shape, i, n, len(proof))
	}
	for m := 1; m <= n; m++ {
		var proof []common.Uint256
		if p := kit.Catch(func() { proof = tree.ConsistencyProof(uint32(m), uint32(n)) }); p != nil {
			r.Violation("consistency-proof-panic:"+tag, fmt.Sprintf("shape=%s ConsistencyProof(%d,%d) panicked: %v", shape, m, n, p), map[string]interface{}{"m": m, "n": n, "shape": shape})
			continue
		}
		r.Eval(1)
		rootM := common.Uint256(ref.root(m))
		if err := e.v.VerifyConsistency(uint32(m), uint32(n), rootM, rootN, proof); err != nil {
			r.Violation("honest-consistency-rejected:"+tag, fmt.Sprintf("shape=%s m=%d n=%d: %v", shape, m, n, err), map[string]interface{}{"m": m, "n": n, "shape": shape, "leaves": hexAll(ref.leaves[:n])})
		} else {
			r.Count("consistency_accepted", 1)
		}
		if m < n && len(proof) == 0 {
			// an empty proof between different sizes can only be accepted through a shortcut
			r.Violation("consistency-proof-empty:"+tag, fmt.Sprintf("shape=%s m=%d n=%d empty proof", shape, m, n), map[string]interface{}{"m": m, "n": n})
		}
		r.Distinct("cons", shape, m, n, len(proof))
	}
}

func hexAll(bs [][]byte) []string {
	out := make([]string, len(bs))
	for i, b := range bs {
		out[i] = kit.Hex(b)
	}
	return out
}

func sameHashes(a, b []common.Uint256) bool {
	if len(a) != len(b) {
		return false
	}
	for i := range a {
		if a[i] != b[i] {
			return false
		}
	}
	return true
}

// sequence drives one append sequence of maxN leaves of the given shape through a memory-store
// tree and a file-store tree, checking every clause of the property after every append.
func (e *env) sequence(shape string, maxN int, dir string, gridEvery int, reopenEvery int) {
	r := e.r
	rng := e.rng
	ref := newRef()
	memStore := merkle.NewMemHashStore()
	mem := merkle.NewTree(0, nil, memStore)
	fpath := filepath.Join(dir, fmt.Sprintf("hashes-%s.db", shape))
	os.Remove(fpath)
	fstore, err := merkle.NewFileHashStore(fpath, 0)
	if err != nil {
		r.Inconclusive("cannot create file hash store: " + err.Error())
		return
	}
	file := merkle.NewTree(0, nil, fstore)
	// a tree without any hash store continued only through Marshal/UnMarshal copies
	var chain *merkle.CompactMerkleTree = merkle.NewTree(0, nil, nil)
	fixed32 := shape != "varlen"

	check := func(what string, got common.Uint256, want [32]byte, n int) bool {
		r.Eval(1)
		if [32]byte(got) != want {
			r.Violation(what, fmt.Sprintf("shape=%s n=%d got %x want %x", shape, n, got[:], want[:]),
				map[string]interface{}{"shape": shape, "n": n, "leaves": hexAll(ref.leaves)})
			return false
		}
		return true
	}

	if check("empty-root-mismatch", mem.Root(), ref.root(0), 0) {
		r.Count("roots_equal", 1)
	}
	for n := 0; n < maxN; n++ {
		leaf := genLeaf(rng, shape, n)
		// --- predictions made on the size-n trees before the append
		var extra [][]byte
		if fixed32 {
			k := []int{0, 1, 2, 3, 5, 8, 17}[rng.Intn(7)]
			extra = append(extra, leaf)
			for j := 1; j < k+1; j++ {
				extra = append(extra, genLeaf(rng, shape, n+j))
			}
			tmp := newRef()
			for _, d := range ref.leaves {
				tmp.add(d)
			}
			rootBefore := mem.Root()
			hashesBefore := append([]common.Uint256{}, mem.Hashes()...)
			for _, tr := range []*merkle.CompactMerkleTree{mem, file} {
				got1 := tr.GetRootWithNewLeaf(u256(leaf))
				tmp1 := newRef()
				for _, d := range ref.leaves {
					tmp1.add(d)
				}
				tmp1.add(leaf)
				if check("predicted-root-one-leaf-mismatch", got1, tmp1.root(n+1), n) {
					r.Count("predicted_equal", 1)
				}
			}
			xs := make([]common.Uint256, len(extra))
			for j, d := range extra {
				xs[j] = u256(d)
				tmp.add(d)
			}
			for cut := 0; cut <= len(xs); cut += 1 + len(xs)/3 {
				got := mem.GetRootWithNewLeaves(xs[:cut])
				if check("predicted-root-many-leaves-mismatch", got, tmp.root(n+cut), n) {
					r.Count("predicted_equal", 1)
				}
				r.Distinct("predict", shape, n, cut)
			}
			gotf := file.GetRootWithNewLeaves(xs)
			if check("predicted-root-many-leaves-mismatch", gotf, tmp.root(n+len(xs)), n) {
				r.Count("predicted_equal", 1)
			}
			// the receiver must be unchanged by predictions
			if mem.Root() != rootBefore || mem.TreeSize() != uint32(n) || !sameHashes(mem.Hashes(), hashesBefore) {
				r.Violation("prediction-changed-receiver", fmt.Sprintf("shape=%s n=%d", shape, n), map[string]interface{}{"shape": shape, "n": n})
			}
		}
		// --- the append itself
		ref.add(leaf)
		mem.Append(leaf)
		file.Append(leaf)
		chain.Append(leaf)
		N := n + 1
		want := ref.root(N)
		ok := check("root-mismatch:mem", mem.Root(), want, N)
		ok = check("root-mismatch:file", file.Root(), want, N) && ok
		ok = check("root-mismatch:nostore", chain.Root(), want, N) && ok
		if ok {
			r.Count("roots_equal", 3)
		}
		r.Distinct("root", shape, N)
		if mem.TreeSize() != uint32(N) || file.TreeSize() != uint32(N) {
			r.Violation("tree-size-mismatch", fmt.Sprintf("shape=%s n=%d mem=%d file=%d", shape, N, mem.TreeSize(), file.TreeSize()), nil)
		}
		// HashFullTree over the same leaves
		r.Eval(1)
		if got := (merkle.TreeHasher{}).HashFullTree(ref.leaves); [32]byte(got) != want {
			r.Violation("hash-full-tree-mismatch", fmt.Sprintf("shape=%s n=%d got %x want %x", shape, N, got[:], want[:]), map[string]interface{}{"leaves": hexAll(ref.leaves)})
		}
		lhs := make([]common.Uint256, N)
		for j := range lhs {
			lhs[j] = common.Uint256(ref.lh[j])
		}
		if got := (merkle.TreeHasher{}).HashFullTreeWithLeafHash(lhs); [32]byte(got) != want {
			r.Violation("hash-full-tree-leafhash-mismatch", fmt.Sprintf("shape=%s n=%d", shape, N), map[string]interface{}{"leaves": hexAll(ref.leaves)})
		}
		// --- Marshal / UnMarshal: the copy has the same root and keeps growing correctly
		buf, err := chain.Marshal()
		r.Eval(1)
		if err != nil {
			r.Violation("marshal-error", err.Error(), nil)
		} else {
			cp := merkle.NewTree(0, nil, nil)
			if p := kit.Catch(func() { err = cp.UnMarshal(buf) }); p != nil || err != nil {
				r.Violation("unmarshal-failed", fmt.Sprintf("shape=%s n=%d panic=%v err=%v", shape, N, p, err), map[string]interface{}{"buf": kit.Hex(buf)})
			} else {
				if [32]byte(cp.Root()) != want || cp.TreeSize() != uint32(N) || !sameHashes(cp.Hashes(), chain.Hashes()) {
					r.Violation("marshal-roundtrip-mismatch", fmt.Sprintf("shape=%s n=%d root %x want %x size %d", shape, N, cp.Root(), want, cp.TreeSize()), map[string]interface{}{"buf": kit.Hex(buf)})
				} else {
					r.Count("marshal_roundtrips", 1)
				}
				// reload into a tree object that already holds OTHER state and whose root has been
				// read (cached) since its last append: the reloaded state must replace it completely
				used := merkle.NewTree(0, nil, nil)
				for j := 0; j < 1+N%5; j++ {
					used.Append([]byte(fmt.Sprintf("other-%d-%d", N, j)))
				}
				_ = used.Root()
				r.Eval(1)
				if p := kit.Catch(func() { err = used.UnMarshal(buf) }); p != nil || err != nil {
					r.Violation("unmarshal-into-used-tree-failed", fmt.Sprintf("shape=%s n=%d panic=%v err=%v", shape, N, p, err), map[string]interface{}{"buf": kit.Hex(buf)})
				} else if [32]byte(used.Root()) != want || used.TreeSize() != uint32(N) || !sameHashes(used.Hashes(), chain.Hashes()) {
					r.Violation("unmarshal-into-used-tree-mismatch", fmt.Sprintf("shape=%s n=%d: reloading into a tree that held other state gives root %x, want %x (size %d)", shape, N, used.Root(), want, used.TreeSize()), map[string]interface{}{"buf": kit.Hex(buf)})
				} else {
					r.Count("marshal_reloads_into_used_tree", 1)
				}
				// continue the sequence on the reloaded copy (so that reloaded state is what grows)
				if N%2 == 0 {
					chain = cp
				} else {
					chain = used
				}
			}
		}
		// --- file store: close and reopen from the hash file
		if reopenEvery > 0 && (N%reopenEvery == 0 || N == maxN || N <= 9) {
			hashes := append([]common.Uint256{}, file.Hashes()...)
			fstore.Close()
			if N%2 == 0 && N%reopenEvery == 0 {
				// crash leftover: the file is longer than the tree needs (a partly persisted append)
				junk := make([]byte, 32*(1+rng.Intn(3))+rng.Intn(32))
				rng.Read(junk)
				f, err := os.OpenFile(fpath, os.O_WRONLY|os.O_APPEND, 0644)
				if err == nil {
					f.Write(junk)
					f.Close()
					r.Count("reopen_with_longer_file", 1)
				}
			}
			fs2, err := merkle.NewFileHashStore(fpath, uint32(N))
			r.Eval(1)
			if err != nil {
				r.Violation("file-store-reopen-failed", fmt.Sprintf("shape=%s n=%d: %v", shape, N, err), map[string]interface{}{"n": N})
				return
			}
			fstore = fs2
			var t2 *merkle.CompactMerkleTree
			if p := kit.Catch(func() { t2 = merkle.NewTree(uint32(N), hashes, fstore) }); p != nil {
				r.Violation("new-tree-panic", fmt.Sprintf("shape=%s n=%d: %v", shape, N, p), nil)
				return
			}
			file = t2
			if [32]byte(file.Root()) != want {
				r.Violation("file-reload-root-mismatch", fmt.Sprintf("shape=%s n=%d got %x want %x", shape, N, file.Root(), want), map[string]interface{}{"n": N})
			} else {
				r.Count("file_reopens", 1)
			}
			// proofs served from the reloaded file
			if N <= 40 || N == maxN || N%(reopenEvery*4) == 0 {
				e.checkProofsAt(file, ref, N, "file-reloaded", shape)
				r.Count("proof_sets_after_reopen", 1)
			}
		}
		// --- proofs for the current size from the live trees
		if gridEvery > 0 && (N%gridEvery == 0 || N <= 33) {
			e.checkProofsAt(mem, ref, N, "mem-live", shape)
		}
	}
	// --- the full (i,n) and (m,n) grids from the final trees (earlier sizes served by a later tree)
	if gridEvery > 0 {
		for n := 1; n <= maxN; n++ {
			e.checkProofsAt(mem, ref, n, "mem-final", shape)
			e.checkProofsAt(file, ref, n, "file-final", shape)
		}
		r.Count("full_grids", 1)
	}
	if len(ref.leaves) >= 5 {
		r.Sample(map[string]interface{}{"shape": shape, "n": 5, "leaves": hexAll(ref.leaves[:5]), "root5": kit.Hex(func() []byte { x := ref.root(5); return x[:] }())})
	}
	fstore.Close()
	os.Remove(fpath)
}

// largeFile: sampled sizes up to maxN on the file store (thorough), proofs sampled.
func (e *env) largeFile(maxN int, dir string, samples int) {
	r := e.r
	rng := e.rng
	ref := newRef()
	fpath := filepath.Join(dir, "hashes-large.db")
	os.Remove(fpath)
	fstore, err := merkle.NewFileHashStore(fpath, 0)
	if err != nil {
		r.Inconclusive("cannot create file hash store: " + err.Error())
		return
	}
	file := merkle.NewTree(0, nil, fstore)
	for n := 0; n < maxN; n++ {
		leaf := genLeaf(rng, "random32", n)
		ref.add(leaf)
		file.Append(leaf)
		N := n + 1
		if N%997 == 0 || N == maxN || (N&(N-1)) == 0 || (N&(N+1)) == 0 {
			r.Eval(1)
			want := ref.root(N)
			if [32]byte(file.Root()) != want {
				r.Violation("root-mismatch:file-large", fmt.Sprintf("n=%d", N), map[string]interface{}{"n": N})
			} else {
				r.Count("roots_equal", 1)
			}
			r.Distinct("large-root", N)
		}
		if N%4001 == 0 {
			hashes := append([]common.Uint256{}, file.Hashes()...)
			fstore.Close()
			fs2, err := merkle.NewFileHashStore(fpath, uint32(N))
			if err != nil {
				r.Violation("file-store-reopen-failed", fmt.Sprintf("large n=%d: %v", N, err), nil)
				return
			}
			fstore = fs2
			file = merkle.NewTree(uint32(N), hashes, fstore)
			r.Count("file_reopens", 1)
		}
	}
	for s := 0; s < samples; s++ {
		n := 1 + rng.Intn(maxN)
		if s%5 == 0 {
			// around powers of two
			k := uint(1 + rng.Intn(14))
			n = (1 << k) + rng.Intn(3) - 1
			if n < 1 {
				n = 1
			}
			if n > maxN {
				n = maxN
			}
		}
		i := rng.Intn(n)
		m := 1 + rng.Intn(n)
		rootN := common.Uint256(ref.root(n))
		proof, err := file.InclusionProof(uint32(i), uint32(n))
		r.Eval(1)
		if err != nil {
			r.Violation("inclusion-proof-error:file-large", fmt.Sprintf("i=%d n=%d: %v", i, n, err), nil)
		} else if err := e.v.VerifyLeafHashInclusion(common.Uint256(ref.lh[i]), uint32(i), proof, rootN, uint32(n)); err != nil {
			r.Violation("honest-inclusion-rejected:file-large", fmt.Sprintf("i=%d n=%d: %v", i, n, err), map[string]interface{}{"i": i, "n": n})
		} else {
			r.Count("inclusion_accepted", 1)
		}
		path, err := file.MerkleInclusionLeafPath(ref.leaves[i], uint32(i), uint32(n))
		if err != nil {
			r.Violation("leafpath-error:file-large", fmt.Sprintf("i=%d n=%d: %v", i, n, err), nil)
		} else if val, err := merkle.MerkleProve(path, rootN[:]); err != nil || !bytes.Equal(val, ref.leaves[i]) {
			r.Violation("honest-leafpath-rejected:file-large", fmt.Sprintf("i=%d n=%d: %v", i, n, err), map[string]interface{}{"i": i, "n": n})
		} else {
			r.Count("leafpath_accepted", 1)
		}
		cp := file.ConsistencyProof(uint32(m), uint32(n))
		r.Eval(1)
		if err := e.v.VerifyConsistency(uint32(m), uint32(n), common.Uint256(ref.root(m)), rootN, cp); err != nil {
			r.Violation("honest-consistency-rejected:file-large", fmt.Sprintf("m=%d n=%d: %v", m, n, err), map[string]interface{}{"m": m, "n": n})
		} else {
			r.Count("consistency_accepted", 1)
		}
		r.Distinct("large", i, m, n)
	}
	fstore.Close()
	os.Remove(fpath)
}

func TestC06(t *testing.T) {
	r := kit.Start(t, "C06", "exploration")
	defer r.Finish()
	r.Rule("append sequences of N leaves for leaf shapes {random32, equal32, fewdistinct32, varlen(0..70 bytes)}; after every append: root of mem-store / file-store / store-less tree vs recursive RFC 6962 MTH, predicted roots for 1 and k extra leaves, Marshal/UnMarshal copy (the copy continues the sequence), file store closed and reopened (also with a longer file); full grids of (leaf i, size n) inclusion proofs (hash list and leaf-path form) and (m, n) consistency proofs, 1<=m<=n<=N, from live, final and reloaded trees, each verified with the node's verifiers; distinct = (kind, shape, indices, proof length)")
	r.Assume("SHA-256 of the Go standard library is the reference hash; RFC 6962 section 2.1 defines MTH")
	r.Assume("consistency proofs are demanded for 1 <= m <= n only (RFC 6962 defines PROOF(m, D[n]) for 0 < m); ConsistencyProof(0, n) is probed separately and only recorded")
	e := &env{r: r, rng: r.Rand("c06"), v: merkle.NewMerkleVerifier()}
	dir := pk.TempDir("c06")
	defer os.RemoveAll(dir)
	N := r.N(96, 400)
	r.Set("grid_N", N)
	e.sequence("random32", N, dir, 16, 8)
	small := r.N(64, 200)
	e.sequence("equal32", small, dir, 16, 8)
	e.sequence("fewdistinct32", small, dir, 16, 8)
	e.sequence("varlen", small, dir, 16, 8)
	// a second random sequence with a different seed stream position and reopen after every append
	e.sequence("random32", r.N(40, 100), dir, 1, 1)
	if !r.Quick() {
		e.largeFile(20000, dir, 4000)
	}
	// probe (not asserted): old size 0
	func() {
		ms := merkle.NewMemHashStore()
		tr := merkle.NewTree(0, nil, ms)
		for i := 0; i < 5; i++ {
			tr.Append([]byte{byte(i)})
		}
		if p := kit.Catch(func() { tr.ConsistencyProof(0, 5) }); p != nil {
			r.Count("probe_consistencyproof_old_size_0_panics", 1)
		} else {
			r.Count("probe_consistencyproof_old_size_0_ok", 1)
		}
	}()
	if r.Violations() > 0 {
		return // vacuity guards are meaningless on a run that already failed
	}
	r.Require("roots_equal", N)
	r.Require("predicted_equal", N)
	r.Require("inclusion_accepted", N*(N+1)/2)
	r.Require("leafpath_accepted", N*(N+1)/2)
	r.Require("consistency_accepted", N*(N+1)/2)
	r.Require("marshal_roundtrips", N)
	r.Require("file_reopens", N/8)
	r.Require("reopen_with_longer_file", 1)
	r.Require("full_grids", 5)
}
