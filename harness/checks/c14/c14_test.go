// C14: blocks and headers need a signature quorum of the validators in force.
//
// Real ledgers with N = 1..10 (quick) / 1..40 (thorough) validators receive candidate successors
// whose bookkeeper / signature lists are fully controlled (sigkit): signer subsets of sizes
// {0, m-1, m, m+1, N}, duplicated bookkeepers, foreign keys, right keys signing another hash,
// garbage signatures, list-length mismatches, and configuration hand-overs. Both paths are driven:
// AddHeaders (header-path validator set) and AddBlock / SubmitBlock (block-path set). The oracle is
// written from the property: acceptance implies >= m valid signatures over the header hash by
// distinct members of the set in force (m = N - floor((N-1)/3), or N - floor(6N/7) under the
// legacy rule), and a canonical header signed by >= m distinct members must be accepted. The set
// in force changes exactly when an accepted block / header announces a new configuration.
package c14

import (
	"fmt"
	"math/rand"
	"os"
	"testing"

	"verifharness/checks/c14/sigkit"
	"verifharness/kit"
	"verifharness/kit/pk"

	"github.com/polynetwork/poly/common/config"
	"github.com/polynetwork/poly/core/store"
	"github.com/polynetwork/poly/core/types"
	_ "github.com/polynetwork/poly/native/service"
)

const (
	mustReject = -1
	either     = 0
	mustAccept = 1
)

type sigCase struct {
	name    string
	entries []sigkit.Entry
}

// expectation derives the verdict from the property text.
func expectation(entries []sigkit.Entry, set []*pk.Key, m int) (verdict int, validDistinct int) {
	member := map[*pk.Key]bool{}
	for _, k := range set {
		member[k] = true
	}
	valid := map[*pk.Key]bool{}
	canonical := true
	seenBook := map[*pk.Key]bool{}
	for _, e := range entries {
		if e.Signer != nil && member[e.Signer] && !e.WrongHash && !e.Garbage {
			valid[e.Signer] = true
		}
		if e.Book == nil || e.Signer != e.Book || !member[e.Book] || e.WrongHash || e.Garbage || seenBook[e.Book] {
			canonical = false
		}
		seenBook[e.Book] = true
	}
	validDistinct = len(valid)
	switch {
	case validDistinct < m:
		return mustReject, validDistinct
	case canonical && len(entries) >= m:
		return mustAccept, validDistinct
	}
	return either, validDistinct
}

func subset(rng *rand.Rand, ks []*pk.Key, k int) []*pk.Key {
	p := rng.Perm(len(ks))
	out := make([]*pk.Key, 0, k)
	for i := 0; i < k && i < len(p); i++ {
		out = append(out, ks[p[i]])
	}
	return out
}

func genCases(rng *rand.Rand, set, foreign []*pk.Key, m int, reps int) []sigCase {
	n := len(set)
	var cs []sigCase
	sizes := map[int]bool{0: true, m - 1: true, m: true, m + 1: true, n: true}
	for rep := 0; rep < reps; rep++ {
		for k := 0; k <= n; k++ {
			if sizes[k] {
				cs = append(cs, sigCase{fmt.Sprintf("subset-%s", sizeName(k, m, n)), sigkit.Canonical(subset(rng, set, k))})
			}
		}
	}
	q := subset(rng, set, m)
	if m >= 2 {
		// m slots but one member listed (and signing) twice
		d := sigkit.Canonical(subset(rng, set, m-1))
		d = append(d, d[rng.Intn(len(d))])
		cs = append(cs, sigCase{"dup-bookkeeper-fills-quorum", d})
		// the same member m times
		one := set[rng.Intn(n)]
		var rep []sigkit.Entry
		for i := 0; i < m; i++ {
			rep = append(rep, sigkit.Entry{Book: one, Signer: one})
		}
		cs = append(cs, sigCase{"one-member-m-times", rep})
	}
	{ // a full quorum plus a duplicate (unspecified: has m distinct valid signers)
		d := sigkit.Canonical(q)
		if len(d) > 0 {
			d = append(d, d[0])
			cs = append(cs, sigCase{"quorum-plus-duplicate", d})
		}
	}
	{ // m-1 members + one foreign key signing correctly
		e := sigkit.Canonical(subset(rng, set, m-1))
		f := foreign[rng.Intn(len(foreign))]
		e = append(e, sigkit.Entry{Book: f, Signer: f})
		rng.Shuffle(len(e), func(i, j int) { e[i], e[j] = e[j], e[i] })
		cs = append(cs, sigCase{"foreign-key-fills-quorum", e})
	}
	{ // only foreign keys, as many as validators
		cs = append(cs, sigCase{"all-foreign", sigkit.Canonical(subset(rng, foreign, n))})
	}
	{ // m members listed, one slot signed by a foreign key under the member's name
		e := sigkit.Canonical(q)
		e[rng.Intn(len(e))].Signer = foreign[rng.Intn(len(foreign))]
		cs = append(cs, sigCase{"foreign-signature-under-member-name", e})
	}
	{ // right keys, one signs another hash
		e := sigkit.Canonical(q)
		e[rng.Intn(len(e))].WrongHash = true
		cs = append(cs, sigCase{"one-signature-over-other-hash", e})
	}
	{ // right keys, all sign another hash
		e := sigkit.Canonical(subset(rng, set, n))
		for i := range e {
			e[i].WrongHash = true
		}
		cs = append(cs, sigCase{"all-signatures-over-other-hash", e})
	}
	{ // garbage signature in a quorum-sized list
		e := sigkit.Canonical(q)
		e[rng.Intn(len(e))].Garbage = true
		cs = append(cs, sigCase{"garbage-signature", e})
	}
	{ // all validators listed, only m-1 signatures
		all := subset(rng, set, n)
		var e []sigkit.Entry
		for i, k := range all {
			if i < m-1 {
				e = append(e, sigkit.Entry{Book: k, Signer: k})
			} else {
				e = append(e, sigkit.Entry{Book: k})
			}
		}
		cs = append(cs, sigCase{"all-listed-too-few-signatures", e})
	}
	{ // all validators listed, exactly m signatures (unspecified)
		all := subset(rng, set, n)
		var e []sigkit.Entry
		for i, k := range all {
			if i < m {
				e = append(e, sigkit.Entry{Book: k, Signer: k})
			} else {
				e = append(e, sigkit.Entry{Book: k})
			}
		}
		cs = append(cs, sigCase{"all-listed-m-signatures", e})
	}
	if m >= 2 { // all validators listed, m signatures of which one is a repeat (m-1 distinct signers)
		all := subset(rng, set, n)
		var e []sigkit.Entry
		for i, k := range all {
			switch {
			case i < m-1:
				e = append(e, sigkit.Entry{Book: k, Signer: k})
			case i == m-1:
				e = append(e, sigkit.Entry{Book: k, Signer: all[0]})
			default:
				e = append(e, sigkit.Entry{Book: k})
			}
		}
		cs = append(cs, sigCase{"all-listed-repeated-signature", e})
	}
	if m >= 2 { // m-1 bookkeepers, m signatures (one signature twice)
		e := sigkit.Canonical(subset(rng, set, m-1))
		e = append(e, sigkit.Entry{Signer: e[0].Signer})
		cs = append(cs, sigCase{"more-signatures-than-bookkeepers", e})
	}
	// lists LONGER than the quorum: the first m listed keys are distinct members, a foreign key (or a
	// repeat of a listed member) sits past position m, and its signature is among the first m signatures
	for _, tail := range []int{1, 3} {
		pref := subset(rng, set, m)
		var e []sigkit.Entry
		for i, k := range pref {
			if i < m-1 {
				e = append(e, sigkit.Entry{Book: k, Signer: k})
			} else {
				e = append(e, sigkit.Entry{Book: k, Signer: foreign[0]}) // slot m: listed member, signature by the outsider
			}
		}
		for t := 0; t < tail; t++ {
			e = append(e, sigkit.Entry{Book: foreign[t]}) // outsider keys listed past the quorum prefix
		}
		cs = append(cs, sigCase{"foreign-key-past-quorum-prefix", e})
	}
	if m >= 2 {
		pref := subset(rng, set, m)
		var e []sigkit.Entry
		for i, k := range pref {
			if i < m-1 {
				e = append(e, sigkit.Entry{Book: k, Signer: k})
			} else {
				e = append(e, sigkit.Entry{Book: k, Signer: pref[0]}) // second signature by the first member
			}
		}
		e = append(e, sigkit.Entry{Book: pref[0]}) // the first member listed again past the prefix
		cs = append(cs, sigCase{"repeated-key-past-quorum-prefix", e})
	}
	if n > m { // all members listed first, then an outsider; the m-th signature is the outsider's
		all := subset(rng, set, n)
		var e []sigkit.Entry
		for i, k := range all {
			switch {
			case i < m-1:
				e = append(e, sigkit.Entry{Book: k, Signer: k})
			case i == m-1:
				e = append(e, sigkit.Entry{Book: k, Signer: foreign[1]})
			default:
				e = append(e, sigkit.Entry{Book: k})
			}
		}
		e = append(e, sigkit.Entry{Book: foreign[1]})
		cs = append(cs, sigCase{"foreign-key-after-all-members", e})
	}
	if n > m { // a member that is not listed signs in place of a listed one (unspecified by the text)
		p := subset(rng, set, m+1)
		e := sigkit.Canonical(p[:m])
		e[0].Signer = p[m]
		cs = append(cs, sigCase{"unlisted-member-signs", e})
	}
	return cs
}

func sizeName(k, m, n int) string {
	s := ""
	switch {
	case k == m:
		s = "m"
	case k == m-1:
		s = "m-1"
	case k == m+1:
		s = "m+1"
	}
	if k == 0 {
		s += "(0)"
	}
	if k == n {
		s += "(N)"
	}
	return s
}

type runner struct {
	r       *kit.Run
	rng     *rand.Rand
	c       *pk.Chain
	rule    string
	legacy  bool
	netID   uint32
	foreign []*pk.Key
	hdrSet  []*pk.Key // set in force on the header path (model)
	blkSet  []*pk.Key // set in force on the block path (model)
}

func (x *runner) m(set []*pk.Key) int { return sigkit.Required(len(set), x.legacy) }

// judge compares one observed verdict with the expectation.
func (x *runner) judge(path, name string, entries []sigkit.Entry, set []*pk.Key, accepted bool, err error, blk *types.Block) bool {
	r := x.r
	m := x.m(set)
	want, valid := expectation(entries, set, m)
	r.Eval(1)
	r.Distinct(len(set), x.rule, name, path, want, accepted)
	r.Count("path_"+path, 1)
	if want == mustReject && len(entries) > m {
		nb := 0
		for _, e := range entries {
			if e.Book != nil {
				nb++
			}
		}
		if nb > m {
			r.Count("must_reject_with_more_than_m_bookkeepers", 1)
		}
	}
	switch name {
	case "foreign-key-past-quorum-prefix", "repeated-key-past-quorum-prefix", "foreign-key-after-all-members":
		r.Count("case_"+name, 1)
	}
	ctx := map[string]interface{}{"N": len(set), "rule": x.rule, "net": x.netID, "m": m, "case": name, "path": path, "valid_distinct_member_signatures": valid,
		"slots": len(entries), "header": kit.Hex(blk.Header.ToArray()), "error": fmt.Sprint(err)}
	switch {
	case accepted && want == mustReject:
		r.Violation("accepted-without-quorum:"+name, fmt.Sprintf("N=%d rule=%s path=%s: accepted with %d valid distinct member signatures, %d required", len(set), x.rule, path, valid, m), ctx)
		return false
	case !accepted && want == mustAccept:
		r.Violation("quorum-refused:"+name, fmt.Sprintf("N=%d rule=%s path=%s: canonical header with %d distinct member signatures (required %d) refused: %v", len(set), x.rule, path, valid, m, err), ctx)
		return false
	}
	if accepted {
		r.Count("accepted", 1)
		if want == either {
			r.Count("unspecified_accepted", 1)
		}
	} else {
		r.Count("rejected", 1)
		if want == either {
			r.Count("unspecified_rejected", 1)
		}
	}
	return true
}

// resync commits an honest block through SubmitBlock so that block tip and header index agree.
func (x *runner) resync() bool {
	blk, res, err := sigkit.Candidate(x.c, sigkit.Canonical(subset(x.rng, x.blkSet, len(x.blkSet))), nil)
	if err != nil {
		x.r.Inconclusive("resync build: " + err.Error())
		return false
	}
	ok, err := sigkit.BlockPath(x.c, blk, res, false, nil)
	if !ok {
		x.r.Violation("quorum-refused:resync-all-signers", fmt.Sprintf("N=%d rule=%s: block signed by every validator refused: %v", len(x.blkSet), x.rule, err), nil)
		return false
	}
	return true
}

// both pushes one candidate through the header path and then the block path.
func (x *runner) both(name string, entries []sigkit.Entry, newCfg []*pk.Key, sync bool) (hdrOK, blkOK bool, fine bool) {
	blk, res, err := sigkit.Candidate(x.c, entries, newCfg)
	if err != nil {
		x.r.Inconclusive("candidate: " + err.Error())
		return false, false, false
	}
	tipBefore := x.c.Store.GetCurrentBlockHeight()
	hdrBefore := x.c.Store.GetCurrentHeaderHeight()
	hdrOK, err = sigkit.HeaderPath(x.c, blk.Header)
	fine = x.judge("header", name, entries, x.hdrSet, hdrOK, err, blk)
	if !hdrOK && x.c.Store.GetCurrentHeaderHeight() != hdrBefore {
		x.r.Violation("refused-header-indexed", fmt.Sprintf("case %s: AddHeaders failed (%v) but the header height moved %d -> %d", name, err, hdrBefore, x.c.Store.GetCurrentHeaderHeight()), nil)
		fine = false
	}
	if hdrOK && newCfg != nil {
		x.hdrSet = newCfg
	}
	blkOK, err = sigkit.BlockPath(x.c, blk, res, sync, newCfg)
	pathName := "block-submit"
	if sync {
		pathName = "block-sync"
	}
	fine = x.judge(pathName, name, entries, x.blkSet, blkOK, err, blk) && fine
	if !blkOK && x.c.Store.GetCurrentBlockHeight() != tipBefore {
		x.r.Violation("refused-block-moved-tip", fmt.Sprintf("case %s", name), nil)
		fine = false
	}
	if blkOK && newCfg != nil {
		x.blkSet = newCfg
	}
	if hdrOK && !blkOK {
		// the header took the slot in the header index; commit an honest block to realign
		fine = x.resync() && fine
	}
	return
}

func (x *runner) quorum(set []*pk.Key) []sigkit.Entry {
	return sigkit.Canonical(subset(x.rng, set, x.m(set)))
}

// handover drives one configuration change A -> B, header first.
func (x *runner) handover(B []*pk.Key, cfgSync bool) bool {
	r := x.r
	A := x.blkSet
	fine := true
	// before: the next set cannot sign, and cannot install itself
	_, _, f := x.both("next-set-signs-before-handover", x.quorum(B), nil, false)
	fine = fine && f
	_, _, f = x.both("next-set-installs-itself", x.quorum(B), B, true)
	fine = fine && f
	{
		e := sigkit.Canonical(subset(x.rng, A, x.m(A)-1))
		if x.m(A)-1 == 0 {
			e = sigkit.Canonical(subset(x.rng, x.foreign, 1))
		}
		_, _, f = x.both("under-signed-config-block", e, B, false)
		fine = fine && f
	}
	_, _, f = x.both("next-set-signs-after-refused-config", x.quorum(B), nil, true)
	fine = fine && f
	// a configuration block that LISTS a full quorum of the set in force but whose signatures do
	// not verify (over another hash / garbage): it is refused only at the signature step, and the
	// set it announces must still not come into force
	{
		e := sigkit.Canonical(subset(x.rng, A, x.m(A)))
		for i := range e {
			if i%2 == 0 {
				e[i].WrongHash = true
			} else {
				e[i].Garbage = true
			}
		}
		_, _, f = x.both("listed-quorum-bad-signatures-config-block", e, B, x.rng.Intn(2) == 0)
		fine = fine && f
		_, _, f = x.both("next-set-signs-after-bad-signature-config", x.quorum(B), nil, x.rng.Intn(2) == 0)
		fine = fine && f
		_, _, f = x.both("set-in-force-still-signs-after-bad-signature-config", x.quorum(A), nil, false)
		fine = fine && f
	}
	if !fine {
		return false
	}
	if !sameSet(x.blkSet, A) || !sameSet(x.hdrSet, A) {
		// an unspecified (overlapping-set) candidate was accepted and moved a set: legal, but the
		// scripted hand-over below assumes A is in force on both paths
		r.Count("handover_skipped_sets_moved_by_unspecified_case", 1)
		return false
	}
	// the configuration block: header first
	qa := x.quorum(A)
	cfg, cfgRes, err := sigkit.Candidate(x.c, qa, B)
	if err != nil {
		r.Inconclusive("cfg candidate: " + err.Error())
		return false
	}
	ok, err := sigkit.HeaderPath(x.c, cfg.Header)
	if !x.judge("header", "config-block", qa, x.hdrSet, ok, err, cfg) || !ok {
		return false
	}
	x.hdrSet = B
	r.Count("handover_header", 1)
	// header path: B in force now; block path: still A
	e2a := x.quorum(A)
	h2a, err := sigkit.OnTop(x.c, cfg.Header, cfg.Header.Height, e2a)
	if err != nil {
		r.Inconclusive("ontop: " + err.Error())
		return false
	}
	ok, err = sigkit.HeaderPath(x.c, h2a.Header)
	fine = x.judge("header", "previous-set-signs-after-handover", e2a, B, ok, err, h2a)
	accepted2a := ok
	var h2b *types.Block
	e2b := x.quorum(B)
	if !accepted2a {
		h2b, err = sigkit.OnTop(x.c, cfg.Header, cfg.Header.Height, e2b)
		if err != nil {
			r.Inconclusive("ontop: " + err.Error())
			return false
		}
		ok, err = sigkit.HeaderPath(x.c, h2b.Header)
		fine = x.judge("header", "new-set-signs-after-handover", e2b, B, ok, err, h2b) && fine
		if !ok {
			return false
		}
	}
	// block path still obeys A: a competing block at the configuration height signed by B
	if comp, compRes, err := sigkit.Candidate(x.c, e2b, nil); err == nil {
		ok, err := sigkit.BlockPath(x.c, comp, compRes, false, nil)
		fine = x.judge("block-submit", "next-set-signs-before-block-handover", e2b, A, ok, err, comp) && fine
		if ok {
			return false // the model chain is gone
		}
	}
	cfgPath := "block-submit"
	if cfgSync {
		cfgPath = "block-sync"
	}
	ok, err = sigkit.BlockPath(x.c, cfg, cfgRes, cfgSync, B)
	if !x.judge(cfgPath, "config-block", qa, A, ok, err, cfg) || !ok {
		return false
	}
	x.blkSet = B
	r.Count("handover_block", 1)
	// block path now obeys B
	second := h2b
	secondEntries := e2b
	if accepted2a {
		second, secondEntries = h2a, e2a
	} else {
		var res store.ExecuteResult
		res, err = x.c.Store.ExecuteBlock(h2a)
		if err == nil {
			ok, err = sigkit.BlockPath(x.c, h2a, res, false, nil)
			fine = x.judge("block-submit", "previous-set-signs-after-handover", e2a, B, ok, err, h2a) && fine
			if ok {
				return false
			}
		}
	}
	res, err := x.c.Store.ExecuteBlock(second)
	if err != nil {
		r.Inconclusive("execute second: " + err.Error())
		return false
	}
	ok, err = sigkit.BlockPath(x.c, second, res, !cfgSync, nil)
	fine = x.judge(map[bool]string{false: "block-submit", true: "block-sync"}[!cfgSync], "new-set-signs-after-handover", secondEntries, B, ok, err, second) && fine
	if !ok {
		return false
	}
	// one short of the new quorum
	if x.m(B) >= 2 {
		_, _, f = x.both("new-set-one-short", sigkit.Canonical(subset(x.rng, B, x.m(B)-1)), nil, true)
		fine = fine && f
	}
	return fine
}

func TestC14(t *testing.T) {
	r := kit.Start(t, "C14", "exploration")
	defer r.Finish()
	r.Rule("for every N in 1..10 (quick) / 1..40 (thorough) and rule in {new (hook), legacy (hook), natural on a non-main and on the main network id}: a real ledger with N validators; canonical signer subsets of sizes {0,m-1,m,m+1,N} and 18 hostile list shapes (incl. lists longer than the quorum with an outsider / repeated key past position m whose signature is among the first m), each through AddHeaders and AddBlock/SubmitBlock; then configuration hand-overs to sets of other sizes (disjoint and overlapping) with old/new-set signatures before and after; evaluation = one (candidate, path) verdict; distinct = (N, rule, case, path, expected, observed)")
	r.Assume("a canonical header (each listed bookkeeper a distinct member signing the header hash, at least m of them) must be accepted; shapes with >= m valid distinct member signatures that are not canonical are unspecified (recorded, not judged)")
	r.Assume("the new rule (main net above height 20,000,000) is reachable only through the verif hook VerifNeedFixHook; on the natural path only the legacy rule can be observed")
	maxN := r.N(10, 40)
	foreign := pk.NewKeys(r.Rand("foreign"), maxN+2)
	naturalSeen := map[bool]int{}
	type cfg struct {
		rule  string
		netID uint32
	}
	for n := 1; n <= maxN; n++ {
		cfgs := []cfg{{"new", 3}, {"legacy", 3}}
		if n%3 == 1 || n == maxN {
			cfgs = append(cfgs, cfg{"natural", 3}, cfg{"natural", config.NETWORK_ID_MAIN_NET})
		}
		for _, cf := range cfgs {
			rng := r.Rand(fmt.Sprintf("n%d-%s-%d", n, cf.rule, cf.netID))
			set := pk.SortKeys(pk.NewKeys(rng, n))
			dir := pk.TempDir("c14")
			c, err := pk.OpenChain(dir, cf.netID, set)
			if err != nil {
				t.Fatal(err)
			}
			restore := sigkit.SetRule(cf.rule, func(nat bool) { naturalSeen[nat]++ })
			x := &runner{r: r, rng: rng, c: c, rule: cf.rule, legacy: cf.rule != "new", netID: cf.netID, foreign: foreign, hdrSet: set, blkSet: set}
			if cf.netID == config.NETWORK_ID_MAIN_NET {
				x.rule = "natural-mainnet"
			}
			reps := r.N(2, 12)
			if cf.rule == "natural" {
				reps = 1
			}
			okAll := true
			for pass := 0; pass < r.N(1, 4); pass++ {
				for i, cs := range genCases(rng, set, foreign, x.m(set), reps) {
					_, _, fine := x.both(cs.name, cs.entries, nil, (i+pass)%2 == 0)
					okAll = okAll && fine
					if r.Violations() > 8 {
						break
					}
				}
			}
			// hand-overs
			rounds := r.N(2, 5)
			if cf.rule == "natural" {
				rounds = 1
			}
			for round := 0; okAll && round < rounds; round++ {
				A := x.blkSet
				var B []*pk.Key
				nb := []int{1, 2, n, n + 1, n - 1, 1 + rng.Intn(maxN)}[rng.Intn(6)]
				if nb < 1 {
					nb = 1
				}
				overlap := 0
				if rng.Intn(2) == 0 {
					overlap = rng.Intn(min(nb, len(A)) + 1)
				}
				B = append(B, subset(rng, A, overlap)...)
				B = append(B, pk.NewKeys(rng, nb-len(B))...)
				B = pk.SortKeys(B)
				if !x.handover(B, (n+round)%2 == 0) {
					break
				}
				r.Count("handovers_completed", 1)
				if n == 4 && round == 0 {
					r.Sample(map[string]interface{}{"N_old": len(A), "N_new": len(B), "overlap": overlap, "rule": x.rule, "m_old": x.m(A), "m_new": x.m(B)})
				}
				// the usual cases under the new set
				for i, cs := range genCases(rng, B, foreign, x.m(B), r.N(1, 3)) {
					_, _, fine := x.both(cs.name+"@after-handover", cs.entries, nil, i%2 == 1)
					if !fine {
						break
					}
				}
			}
			restore()
			c.Close()
			os.RemoveAll(dir)
			r.Count("ledgers", 1)
			if r.Violations() > 8 {
				return
			}
		}
	}
	r.Set("natural_rule_observed", map[string]int{"legacy": naturalSeen[true], "new": naturalSeen[false]})
	if naturalSeen[false] > 0 {
		r.Violation("natural-rule-not-legacy", fmt.Sprintf("verifyHeader chose the new rule %d times on a non-main network / main net below height 20,000,000", naturalSeen[false]), nil)
	}
	r.Require("accepted", maxN*10)
	r.Require("rejected", maxN*30)
	r.Require("path_header", maxN*30)
	r.Require("path_block-submit", maxN*10)
	r.Require("path_block-sync", maxN*10)
	r.Require("handover_header", maxN)
	r.Require("handover_block", maxN)
	r.Require("handovers_completed", maxN)
	r.Require("case_foreign-key-past-quorum-prefix", maxN*8)
	r.Require("case_repeated-key-past-quorum-prefix", maxN)
	r.Require("case_foreign-key-after-all-members", maxN*2)
	r.Require("must_reject_with_more_than_m_bookkeepers", maxN*10)
}

func sameSet(a, b []*pk.Key) bool {
	if len(a) != len(b) {
		return false
	}
	for i := range a {
		if a[i] != b[i] {
			return false
		}
	}
	return true
}

func min(a, b int) int {
	if a < b {
		return a
	}
	return b
}
