// C43: wallet accounts round-trip through the wallet file and are password-protected.
//
// Monitor: for every supported (key type, curve, signature scheme) and a family of passwords the
// real account.ClientImpl creates / imports accounts, the wallet file is re-opened by a fresh
// client, and the oracle (written from the property statement) demands
//   - the right password yields the same private key, public key, address (through every getter);
//   - every other password (prefix, extended, case flip, one bit, unrelated) yields an error.
package c43

import (
	"bytes"
	"crypto/ed25519"
	"crypto/sha256"
	"fmt"
	"os"
	"path/filepath"
	"runtime"
	"sync"
	"testing"
	"time"
	"unicode/utf8"

	"github.com/ontio/ontology-crypto/ec"
	"github.com/ontio/ontology-crypto/keypair"
	s "github.com/ontio/ontology-crypto/signature"
	"github.com/polynetwork/poly/account"
	"github.com/polynetwork/poly/core/signature"

	"verifharness/kit"
	"verifharness/kit/pk"

	"math/rand"
)

type combo struct {
	kt      keypair.KeyType
	curve   byte
	scheme  s.SignatureScheme
	ktName  string
	crvName string
}

func (c combo) String() string { return c.ktName + "/" + c.crvName + "/" + c.scheme.Name() }

var ecdsaSchemes = []s.SignatureScheme{s.SHA224withECDSA, s.SHA256withECDSA, s.SHA384withECDSA, s.SHA512withECDSA,
	s.SHA3_224withECDSA, s.SHA3_256withECDSA, s.SHA3_384withECDSA, s.SHA3_512withECDSA, s.RIPEMD160withECDSA}

func allCombos() []combo {
	var out []combo
	curves := []struct {
		b byte
		n string
	}{{keypair.P224, "P224"}, {keypair.P256, "P256"}, {keypair.P384, "P384"}, {keypair.P521, "P521"}, {keypair.SECP256K1, "secp256k1"}}
	for _, c := range curves {
		for _, sc := range ecdsaSchemes {
			out = append(out, combo{keypair.PK_ECDSA, c.b, sc, "ECDSA", c.n})
		}
	}
	out = append(out, combo{keypair.PK_SM2, keypair.SM2P256V1, s.SM3withSM2, "SM2", "sm2p256v1"})
	out = append(out, combo{keypair.PK_EDDSA, keypair.ED25519, s.SHA512withEDDSA, "EDDSA", "ed25519"})
	return out
}

// password classes (all non-empty: the wallet API refuses the empty password at creation).
var pwdClasses = []string{"one-byte", "ascii", "long-1KiB", "unicode", "nul-bytes", "high-bytes", "spaces", "letters-only"}

func genPassword(class string, rng *rand.Rand) []byte {
	switch class {
	case "one-byte":
		return []byte{byte(1 + rng.Intn(255))}
	case "ascii":
		n := 6 + rng.Intn(20)
		b := make([]byte, n)
		for i := range b {
			b[i] = byte(33 + rng.Intn(94))
		}
		return b
	case "long-1KiB":
		b := make([]byte, 1024+rng.Intn(64))
		rng.Read(b)
		return b
	case "unicode":
		rs := []rune("пароль密码كلمةのパスワード🔑ßéŒ")
		n := 3 + rng.Intn(10)
		out := make([]rune, n)
		for i := range out {
			out[i] = rs[rng.Intn(len(rs))]
		}
		return []byte(string(out))
	case "nul-bytes":
		n := 2 + rng.Intn(12)
		b := make([]byte, n)
		rng.Read(b)
		b[rng.Intn(n)] = 0
		b[0] = 0
		if rng.Intn(3) == 0 {
			for i := range b {
				b[i] = 0
			}
		}
		return b
	case "high-bytes":
		n := 1 + rng.Intn(16)
		b := make([]byte, n)
		for i := range b {
			b[i] = byte(0x80 + rng.Intn(0x80))
		}
		return b
	case "spaces":
		n := 1 + rng.Intn(8)
		return bytes.Repeat([]byte{' '}, n)
	default: // letters-only
		n := 4 + rng.Intn(12)
		b := make([]byte, n)
		for i := range b {
			b[i] = byte('a' + rng.Intn(26))
			if rng.Intn(2) == 0 {
				b[i] -= 32
			}
		}
		return b
	}
}

type wrongPwd struct {
	kind string
	pwd  []byte
}

// wrongPasswords derives the "any other password" family of one password.
func wrongPasswords(p []byte, rng *rand.Rand) []wrongPwd {
	var out []wrongPwd
	out = append(out, wrongPwd{"prefix", append([]byte{}, p[:len(p)-1]...)})
	out = append(out, wrongPwd{"extended", append(append([]byte{}, p...), byte(rng.Intn(256)))})
	out = append(out, wrongPwd{"prepended", append([]byte{byte(rng.Intn(256))}, p...)})
	// case flip of an ASCII letter when there is one, else flip bit 5 of some byte
	cf := append([]byte{}, p...)
	idx := -1
	for i, c := range cf {
		if (c >= 'a' && c <= 'z') || (c >= 'A' && c <= 'Z') {
			idx = i
			break
		}
	}
	if idx < 0 {
		idx = rng.Intn(len(cf))
	}
	cf[idx] ^= 0x20
	out = append(out, wrongPwd{"case-flip", cf})
	ob := append([]byte{}, p...)
	ob[rng.Intn(len(ob))] ^= 1 << uint(rng.Intn(8))
	out = append(out, wrongPwd{"one-bit", ob})
	un := make([]byte, 1+rng.Intn(12))
	rng.Read(un)
	if bytes.Equal(un, p) {
		un = append(un, 1)
	}
	out = append(out, wrongPwd{"unrelated", un})
	out = append(out, wrongPwd{"empty", []byte{}})
	return out
}

// hmacNorm is how HMAC (inside PBKDF2 inside scrypt) turns a password into its key block: longer
// than one SHA-256 block -> hashed, then right-padded with zero bytes. Two different passwords with
// the same block are still *different passwords* for the property; the function only classifies a
// violation so that this shape gets its own stable key.
func hmacNorm(p []byte) string {
	if len(p) > 64 {
		h := sha256.Sum256(p)
		p = h[:]
	}
	return string(bytes.TrimRight(p, "\x00"))
}

// structuralWrong are other passwords that are always tried (not sampled).
func structuralWrong(p []byte) []wrongPwd {
	var out []wrongPwd
	if len(p) < 64 {
		out = append(out, wrongPwd{"nul-appended", append(append([]byte{}, p...), 0)})
	}
	if len(p) > 64 {
		h := sha256.Sum256(p)
		out = append(out, wrongPwd{"sha256-of-long-password", h[:]})
	}
	return out
}

var labelClasses = []string{"empty", "ascii", "unicode", "json-special", "long", "invalid-utf8"}

func genLabel(class string, uniq string, rng *rand.Rand) string {
	switch class {
	case "empty":
		return ""
	case "ascii":
		return "acct-" + uniq
	case "unicode":
		return "счёт-账户-" + uniq + "-🔑"
	case "json-special":
		return "a\"b\\c\n\t</script>& " + uniq
	case "long":
		return string(bytes.Repeat([]byte("L"), 2000)) + uniq
	default:
		return "bad\xff\xfe-" + uniq
	}
}

// privEqual compares two private keys structurally and by their canonical serialization.
func privEqual(a, b keypair.PrivateKey) (bool, string) {
	switch x := a.(type) {
	case *ec.PrivateKey:
		y, ok := b.(*ec.PrivateKey)
		if !ok {
			return false, fmt.Sprintf("type %T vs %T", a, b)
		}
		if x.Algorithm != y.Algorithm {
			return false, "ec algorithm differs"
		}
		if x.Params().Name != y.Params().Name {
			return false, "curve differs: " + x.Params().Name + " vs " + y.Params().Name
		}
		if x.D.Cmp(y.D) != 0 {
			return false, "D differs"
		}
		if x.X.Cmp(y.X) != 0 || x.Y.Cmp(y.Y) != 0 {
			return false, "public point differs"
		}
	case ed25519.PrivateKey:
		y, ok := b.(ed25519.PrivateKey)
		if !ok {
			return false, fmt.Sprintf("type %T vs %T", a, b)
		}
		if !bytes.Equal(x, y) {
			return false, "ed25519 key bytes differ"
		}
	default:
		return false, fmt.Sprintf("unexpected private key type %T", a)
	}
	var sa, sb []byte
	if p := kit.Catch(func() { sa = keypair.SerializePrivateKey(a); sb = keypair.SerializePrivateKey(b) }); p != nil {
		return false, fmt.Sprintf("SerializePrivateKey panicked: %v", p)
	}
	if !bytes.Equal(sa, sb) {
		return false, "serialized private keys differ"
	}
	return true, ""
}

type made struct {
	c      combo
	pclass string
	pwd    []byte
	label  string
	lclass string
	acc    *account.Account
	addr   string
	index  int // 1-based position in the wallet
}

type ctx struct {
	r    *kit.Run
	mu   sync.Mutex
	seen map[string]int
}

// vio reports a violation; after 2 reports of the same stable key further occurrences are only
// counted (the kit stops writing replays after 50 violations, which would hide other keys).
func (x *ctx) vio(key, what string, replay interface{}) {
	x.mu.Lock()
	x.seen[key]++
	n := x.seen[key]
	x.mu.Unlock()
	x.r.Count("violations:"+key, 1)
	if n <= 2 {
		x.r.Violation(key, what, replay)
	}
}

// checkAccount is the oracle for one (reloaded client, account): right password → same key pair
// and address through every getter; every other password → error.
func (x *ctx) checkAccount(cli account.Client, m *made, how string, rng *rand.Rand, wrongN int) {
	r := x.r
	replay := map[string]interface{}{"combo": m.c.String(), "pwd_class": m.pclass, "pwd_hex": kit.Hex(m.pwd), "label_class": m.lclass, "how": how}
	same := func(got *account.Account, err error, via string) bool {
		r.Eval(1)
		if err != nil || got == nil {
			x.vio("right-password-refused:"+how+":"+via, fmt.Sprintf("%s pwd-class=%s via %s: err=%v acc-nil=%v", m.c, m.pclass, via, err, got == nil), replay)
			return false
		}
		if ok, why := privEqual(m.acc.PrivateKey, got.PrivateKey); !ok {
			x.vio("private-key-differs:"+how, fmt.Sprintf("%s via %s: %s", m.c, via, why), replay)
			return false
		}
		if !keypair.ComparePublicKey(m.acc.PublicKey, got.PublicKey) ||
			!bytes.Equal(keypair.SerializePublicKey(m.acc.PublicKey), keypair.SerializePublicKey(got.PublicKey)) {
			x.vio("public-key-differs:"+how, fmt.Sprintf("%s via %s", m.c, via), replay)
			return false
		}
		if m.acc.Address != got.Address || got.Address.ToBase58() != m.addr {
			x.vio("address-differs:"+how, fmt.Sprintf("%s via %s: %s vs %s", m.c, via, got.Address.ToBase58(), m.addr), replay)
			return false
		}
		if got.SigScheme != m.c.scheme {
			x.vio("sig-scheme-differs:"+how, fmt.Sprintf("%s via %s: got %s", m.c, via, got.SigScheme.Name()), replay)
			return false
		}
		r.Count("right_password_same_keys", 1)
		return true
	}
	got, err := cli.GetAccountByAddress(m.addr, m.pwd)
	if !same(got, err, "address") {
		return
	}
	// the reloaded key is the same key operationally: a signature made with it verifies under
	// the public key handed out at creation (and vice versa).
	msg := make([]byte, 1+rng.Intn(64))
	rng.Read(msg)
	var sig []byte
	var serr error
	if p := kit.Catch(func() { sig, serr = signature.Sign(got, msg) }); p != nil || serr != nil {
		// a scheme/curve pair that cannot sign at all is not a wallet round-trip matter; record it
		r.Count("sign_unsupported:"+m.c.crvName+"/"+m.c.scheme.Name(), 1)
	} else if err := signature.Verify(m.acc.PublicKey, msg, sig); err != nil {
		x.vio("reloaded-key-signature-rejected:"+how, fmt.Sprintf("%s: %v", m.c, err), replay)
	} else {
		r.Count("reloaded_key_signs_for_original_pub", 1)
	}
	if m.index > 0 {
		got, err = cli.GetAccountByIndex(m.index, m.pwd)
		same(got, err, "index")
	}
	if m.label != "" && utf8.ValidString(m.label) {
		got, err = cli.GetAccountByLabel(m.label, m.pwd)
		same(got, err, "label")
	} else if m.label != "" {
		// a label that is not valid UTF-8 cannot survive a JSON file; lookup by label is only observed
		got, err = cli.GetAccountByLabel(m.label, m.pwd)
		if got == nil {
			r.Count("observed_invalid_utf8_label_not_found_after_reload", 1)
		}
	}
	md := cli.GetAccountMetadataByAddress(m.addr)
	if md == nil || md.Address != m.addr || md.PubKey != kit.Hex(keypair.SerializePublicKey(m.acc.PublicKey)) {
		x.vio("metadata-differs:"+how, fmt.Sprintf("%s: %+v", m.c, md), replay)
	}
	ws := wrongPasswords(m.pwd, rng)
	if wrongN < len(ws) {
		// always keep the structurally closest ones, sample the rest
		rng.Shuffle(len(ws), func(i, j int) { ws[i], ws[j] = ws[j], ws[i] })
		ws = ws[:wrongN]
	}
	ws = append(ws, structuralWrong(m.pwd)...)
	for _, w := range ws {
		if bytes.Equal(w.pwd, m.pwd) {
			continue
		}
		r.Eval(1)
		a, err := cli.GetAccountByAddress(m.addr, w.pwd)
		r.Distinct("wrong", m.c.String(), m.pclass, w.kind, how)
		if err == nil || a != nil {
			rp := map[string]interface{}{"combo": m.c.String(), "pwd_hex": kit.Hex(m.pwd), "wrong_hex": kit.Hex(w.pwd), "kind": w.kind, "how": how}
			if hmacNorm(w.pwd) == hmacNorm(m.pwd) {
				shape := "trailing-nul"
				if len(w.pwd) > 64 || len(m.pwd) > 64 {
					shape = "long-password-vs-its-sha256"
				}
				x.vio("other-password-accepted:hmac-key-equivalent:"+shape,
					fmt.Sprintf("%s pwd-class=%s: a different password (%s) opened the account; both passwords give the same HMAC key block inside scrypt/PBKDF2", m.c, m.pclass, w.kind), rp)
				continue
			}
			x.vio("wrong-password-accepted:"+w.kind, fmt.Sprintf("%s pwd-class=%s: %s password opened the account", m.c, m.pclass, w.kind), rp)
			continue
		}
		r.Count("wrong_password_refused", 1)
		r.Count("wrong_refused:"+w.kind, 1)
	}
}

type job struct {
	id     int
	cases  []caseSpec
	scrypt string // "default" | "low"
	wrongN int
}

type caseSpec struct {
	c      combo
	pclass string
	lclass string
}

func (x *ctx) runJob(j job, root string) {
	r := x.r
	rng := r.Rand(fmt.Sprintf("job-%d", j.id))
	dir := filepath.Join(root, fmt.Sprintf("w%d", j.id))
	os.MkdirAll(dir, 0755)
	defer os.RemoveAll(dir)
	path := filepath.Join(dir, "wallet.dat")
	cli, err := account.Open(path)
	if err != nil {
		r.Inconclusive(fmt.Sprintf("cannot open new wallet: %v", err))
		return
	}
	var ms []*made
	add := func(cli account.Client, cs caseSpec, n int) *made {
		pwd := genPassword(cs.pclass, rng)
		label := genLabel(cs.lclass, fmt.Sprintf("%d-%d", j.id, n), rng)
		var acc *account.Account
		var err error
		if p := kit.Catch(func() { acc, err = cli.NewAccount(label, cs.c.kt, cs.c.curve, cs.c.scheme, pwd) }); p != nil {
			x.vio("newaccount-panic:"+cs.c.ktName+"/"+cs.c.crvName, fmt.Sprintf("%s: %v", cs.c, p), map[string]interface{}{"combo": cs.c.String(), "pwd_hex": kit.Hex(pwd)})
			return nil
		}
		if err != nil || acc == nil {
			// not created: nothing to round-trip. Observed, not judged (an unsupported combination).
			r.Count("newaccount_refused:"+cs.c.ktName+"/"+cs.c.crvName, 1)
			return nil
		}
		r.Count("accounts_created", 1)
		r.Count("created:"+cs.c.ktName+"/"+cs.c.crvName, 1)
		return &made{c: cs.c, pclass: cs.pclass, pwd: pwd, label: label, lclass: cs.lclass, acc: acc, addr: acc.Address.ToBase58()}
	}
	for n, cs := range j.cases {
		if m := add(cli, cs, n); m != nil {
			m.index = cli.GetAccountNum()
			ms = append(ms, m)
		}
	}
	if len(ms) == 0 {
		return
	}
	// the empty password must not create an account that then cannot be opened
	if acc, err := cli.NewAccount("", j.cases[0].c.kt, j.cases[0].c.curve, j.cases[0].c.scheme, []byte{}); err == nil && acc != nil {
		r.Count("observed_empty_password_account_created", 1)
	} else {
		r.Count("empty_password_refused_at_creation", 1)
	}

	// ---- reload from the file with a fresh client
	cli2, err := account.Open(path)
	if err != nil {
		x.vio("saved-wallet-unreadable", fmt.Sprintf("job %d: %v", j.id, err), map[string]interface{}{"labels": labelsOf(ms)})
		return
	}
	if cli2.GetAccountNum() != len(ms) {
		x.vio("account-count-differs-after-reload", fmt.Sprintf("job %d: %d vs %d", j.id, cli2.GetAccountNum(), len(ms)), nil)
	}
	for _, m := range ms {
		r.Distinct("created", m.c.String(), m.pclass, m.lclass, j.scrypt)
		x.checkAccount(cli2, m, "created", rng, j.wrongN)
	}
	// default account = the first one
	if d, err := cli2.GetDefaultAccount(ms[0].pwd); err != nil || d == nil || d.Address != ms[0].acc.Address {
		x.vio("default-account-differs", fmt.Sprintf("job %d err=%v", j.id, err), nil)
	}

	// ---- import path: export metadata from the reloaded wallet, import into another wallet file
	path2 := filepath.Join(dir, "imported.dat")
	cli3, err := account.Open(path2)
	if err != nil {
		r.Inconclusive(fmt.Sprintf("cannot open second wallet: %v", err))
		return
	}
	var imported []*made
	for _, m := range ms {
		md := cli2.GetAccountMetadataByAddress(m.addr)
		if md == nil {
			continue
		}
		if err := cli3.ImportAccount(md); err != nil {
			x.vio("import-refused", fmt.Sprintf("%s: %v", m.c, err), map[string]interface{}{"combo": m.c.String()})
			continue
		}
		im := *m
		im.index = cli3.GetAccountNum()
		im.label = md.Label // JSON may have altered an invalid label; use what the wallet reports
		imported = append(imported, &im)
		r.Count("accounts_imported", 1)
	}
	cli4, err := account.Open(path2)
	if err != nil {
		x.vio("saved-wallet-unreadable", fmt.Sprintf("job %d (import): %v", j.id, err), nil)
		return
	}
	for _, m := range imported {
		r.Distinct("imported", m.c.String(), m.pclass, m.lclass)
		x.checkAccount(cli4, m, "imported", rng, 2)
	}

	// ---- wallet with its own (non-default) scrypt parameters, a persisted field of the file
	if j.scrypt == "low" {
		// what `account export --low-security` does: convert a Clone of the wallet data, save it
		// elsewhere; the wallet it was cloned from must not be affected
		wd := cli2.GetWalletData().Clone()
		pwds := make([][]byte, len(ms))
		for i, m := range ms {
			pwds[i] = m.pwd
		}
		if err := wd.ToLowSecurity(pwds); err != nil {
			x.vio("tolowsecurity-failed", fmt.Sprintf("job %d: %v", j.id, err), nil)
			return
		}
		path3 := filepath.Join(dir, "low.dat")
		if err := wd.Save(path3); err != nil {
			r.Inconclusive("cannot save low-security wallet: " + err.Error())
			return
		}
		cli5, err := account.Open(path3)
		if err != nil {
			x.vio("saved-wallet-unreadable", fmt.Sprintf("job %d (low): %v", j.id, err), nil)
			return
		}
		for _, m := range ms {
			r.Distinct("low-existing", m.c.String(), m.pclass)
			x.checkAccount(cli5, m, "low-security-reencrypted", rng, 2)
		}
		// the original wallet after the export: in memory, and after its next save + reload
		for _, m := range ms {
			x.checkAccount(cli2, m, "original-in-memory-after-export", rng, 1)
		}
		relabeled := *ms[0]
		relabeled.label = fmt.Sprintf("after-export-%d", j.id)
		if err := cli2.SetLabel(relabeled.addr, relabeled.label); err != nil {
			x.vio("setlabel-failed-after-export", err.Error(), nil)
		} else if cli7, err := account.Open(path); err != nil {
			x.vio("saved-wallet-unreadable", fmt.Sprintf("job %d (original after export): %v", j.id, err), nil)
		} else {
			x.checkAccount(cli7, &relabeled, "original-reloaded-after-export", rng, 1)
			for _, m := range ms[1:] {
				x.checkAccount(cli7, m, "original-reloaded-after-export", rng, 1)
			}
			r.Count("original_wallet_checked_after_export", 1)
		}
		// create a new account inside this wallet, save (NewAccount saves), reopen, decrypt
		cs := j.cases[rng.Intn(len(j.cases))]
		cs.lclass = "ascii"
		nm := add(cli5, cs, 1000)
		if nm != nil {
			nm.index = cli5.GetAccountNum()
			cli6, err := account.Open(path3)
			if err != nil {
				x.vio("saved-wallet-unreadable", fmt.Sprintf("job %d (low, after new): %v", j.id, err), nil)
				return
			}
			r.Distinct("low-new", nm.c.String(), nm.pclass)
			r.Count("created_in_custom_scrypt_wallet", 1)
			x.checkAccount(cli6, nm, "created-in-custom-scrypt-wallet", rng, 2)
		}
	}
}

func labelsOf(ms []*made) []string {
	var out []string
	for _, m := range ms {
		out = append(out, m.lclass)
	}
	return out
}

func TestC43(t *testing.T) {
	r := kit.Start(t, "C43", "exploration")
	defer r.Finish()
	r.Rule("every (key type, curve, signature scheme) the wallet accepts × password classes {one-byte, ascii, long-1KiB, unicode, nul-bytes, high-bytes, spaces, letters-only} × label classes; " +
		"each case: NewAccount → wallet file → fresh Open → getters by address/index/label with the right password, then 7 kinds of other passwords; " +
		"export metadata → ImportAccount into a second wallet → reopen → same oracle; some wallets are converted to their own scrypt parameters (ToLowSecurity) and a further account is created inside; " +
		"part 2: per wallet a seeded script against a model — successful ChangePassword (new opens, old refused, in memory and after reload), then every mutating operation {ChangePassword, NewAccount, ImportAccount, import of an existing address, SetLabel, SetDefaultAccount, DeleteAccount, ChangeSigScheme, first save} once while the wallet file cannot be saved, followed by a successful saving operation and a reload; " +
		"distinct = (path, combination, password class, label class / wrong-password kind) and (operation, fault/ok)")
	r.Assume("keys are generated by the wallet from crypto/rand, so key material differs between runs; the case list (combination, password, label) is a function of (seed, tier)")
	r.Assume("passwords are non-empty byte strings: the wallet refuses the empty password at creation and at decryption (observed and counted, not judged)")
	r.Assume("lookup by label is judged only for labels that are valid UTF-8 (the wallet file is JSON); lookup by address and index is judged for all labels")
	r.Assume("AES-GCM forgery / scrypt collisions are negligible, so 'another password' must be refused")
	r.Assume("save failures are injected by making the temporary file <wallet>~ (or the wallet directory) unusable; an operation that fails this way must leave every account with the password, key, label and default flag it had")
	r.Assume("importing metadata into a wallet whose scrypt parameters differ from the exporting wallet is not representable (metadata carries no scrypt parameters) and is excluded")

	root := pk.TempDir("c43")
	defer os.RemoveAll(root)
	x := &ctx{r: r, seen: map[string]int{}}
	combos := allCombos()
	rng := r.Rand("plan")
	// plan: every combination × pwdPerCombo password classes (rotating so that every class meets
	// every key type/curve), grouped 3 accounts per wallet.
	pwdPerCombo := r.N(3, len(pwdClasses)*2)
	var specs []caseSpec
	for ci, c := range combos {
		for k := 0; k < pwdPerCombo; k++ {
			pc := pwdClasses[(ci+k*3+int(r.Seed))%len(pwdClasses)]
			lc := labelClasses[(ci+k)%len(labelClasses)]
			specs = append(specs, caseSpec{c, pc, lc})
		}
	}
	rng.Shuffle(len(specs), func(i, j int) { specs[i], specs[j] = specs[j], specs[i] })
	var jobs []job
	per := 3
	for i := 0; i < len(specs); i += per {
		e := i + per
		if e > len(specs) {
			e = len(specs)
		}
		j := job{id: len(jobs), cases: specs[i:e], scrypt: "default", wrongN: r.N(4, 7)}
		if len(jobs)%6 == 0 {
			j.scrypt = "low"
		}
		jobs = append(jobs, j)
	}
	r.Set("combinations", len(combos))
	r.Set("wallets", len(jobs))
	workers := runtime.NumCPU()
	if workers > 16 {
		workers = 16
	}
	ch := make(chan job)
	var wg sync.WaitGroup
	for w := 0; w < workers; w++ {
		wg.Add(1)
		go func() {
			defer wg.Done()
			for j := range ch {
				if p := kit.Catch(func() { x.runJob(j, root) }); p != nil {
					r.Violation("wallet-panic", fmt.Sprintf("job %d: %v", j.id, p), map[string]interface{}{"job": j.id})
				}
			}
		}()
	}
	for _, j := range jobs {
		ch <- j
	}
	close(ch)
	wg.Wait()

	// part 2: password changes and save-failure injection (c43_fault_test.go)
	t1 := time.Now()
	nFault := r.N(12, 128)
	fch := make(chan int)
	for w := 0; w < workers; w++ {
		wg.Add(1)
		go func() {
			defer wg.Done()
			for id := range fch {
				if p := kit.Catch(func() { x.runFaultJob(id, root) }); p != nil {
					r.Violation("wallet-panic:fault-script", fmt.Sprintf("fault job %d: %v", id, p), map[string]interface{}{"job": id})
				}
			}
		}()
	}
	for id := 0; id < nFault; id++ {
		fch <- id
	}
	close(fch)
	wg.Wait()
	r.Set("fault_wallets", nFault)
	r.Require("original_wallet_checked_after_export", len(jobs)/8)
	r.Require("export_other_security_cycles", nFault/2)
	r.Require("failed_conversion_cycles", nFault/2)
	r.Require("failed_conversion_cycles:ToLowSecurity", 1)
	r.Require("failed_conversion_cycles:ToDefaultSecurity", nFault/4)
	r.Set("part2_wall_s", time.Since(t1).Seconds())
	r.Require("password_change_roundtrips", nFault*3/4)
	r.Require("fault_then_save_then_reload", nFault*5)
	r.Require("fault_dead_password_refused", nFault*4)
	for _, k := range []string{"ChangePassword", "NewAccount", "ImportAccount", "SetLabel", "SetDefaultAccount", "DeleteAccount", "NewAccount-first-save"} {
		r.Require("fault_injected:"+k, nFault/2)
	}
	r.Sample(map[string]interface{}{"combo": combos[0].String(), "password_classes": pwdClasses, "label_classes": labelClasses,
		"wrong_kinds": []string{"prefix", "extended", "prepended", "case-flip", "one-bit", "unrelated", "empty"}})
	r.Sample(map[string]interface{}{"example_case": specs[0].c.String(), "pwd_class": specs[0].pclass, "label_class": specs[0].lclass})
	r.Require("accounts_created", len(specs)*3/4)
	r.Require("right_password_same_keys", len(specs))
	r.Require("wrong_password_refused", len(specs)*2)
	r.Require("accounts_imported", len(specs)/2)
	r.Require("created:ECDSA/P256", 1)
	r.Require("created:SM2/sm2p256v1", 1)
	r.Require("created:EDDSA/ed25519", 1)
}
