package ccmsynth

import (
	"math/rand"
	"testing"

	"github.com/polynetwork/poly/common"
	"github.com/polynetwork/poly/common/config"
	"github.com/polynetwork/poly/native/service/utils"

	"verifharness/kit/nat"
	"verifharness/kit/pk"
	es "verifharness/synth/ethsynth"

	polyeth "github.com/polynetwork/poly/native/service/header_sync/eth"
)

func TestSmoke(t *testing.T) {
	rng := rand.New(rand.NewSource(1))
	vals := pk.NewKeys(rng, 4)
	owner := pk.NewKey(rng)
	w, err := NewWorld(config.NETWORK_ID_MAIN_NET, vals, owner)
	if err != nil {
		t.Fatal(err)
	}
	for _, id := range []uint64{10, 11} {
		if err := w.RegisterAndApprove(ChainSpec{ID: id, Router: utils.VOTE_ROUTER}); err != nil {
			t.Fatal(err)
		}
	}
	im := Import{Source: 10, Height: 5, Param: RandParam(rng, 11, []byte{1, 2, 3})}
	for i, v := range vals {
		rec := w.Vote(im, v)
		t.Log(i, rec.Ok, rec.Err, len(rec.CrossHashes), len(rec.Notify), w.E.GetRaw(DoneKey(10, []byte{1, 2, 3})) != nil)
	}
	extra := pk.NewKey(rng)
	if err := w.AddValidator(extra); err != nil {
		t.Fatal(err)
	}
	if err := w.RemoveValidator(vals[0]); err != nil {
		t.Fatal(err)
	}
	if err := w.RegisterRelayers(owner, []common.Address{extra.Addr}, 0); err != nil {
		t.Fatal(err)
	}
	if r := w.Black(11); !r.Ok {
		t.Fatal(r.Err)
	}
	if err := w.QuitAndApprove(10, nil); err != nil {
		t.Fatal(err)
	}
	t.Log(w.ConsensusPubs())
}

func TestEVMSmoke(t *testing.T) {
	polyeth.VerifSealBypass = true
	defer func() { polyeth.VerifSealBypass = false }()
	for _, kind := range []string{"eth", "bsc"} {
		rng := rand.New(rand.NewSource(2))
		w, err := NewWorld(config.NETWORK_ID_MAIN_NET, pk.NewKeys(rng, 4), pk.NewKey(rng))
		if err != nil {
			t.Fatal(err)
		}
		if err := w.RegisterAndApprove(ChainSpec{ID: 20, Router: utils.ETH_ROUTER}); err != nil {
			t.Fatal(err)
		}
		s := w.NewEVMSource(rng, kind, 13)
		p := es.RandTxParam(rng, 20)
		m1 := s.Commit(rng, p)
		m2 := s.Commit(rng, p)
		if err := s.Seal(rng, 5); err != nil {
			t.Fatal(kind, err)
		}
		o := w.Do(func() *nat.CallRecord { return s.Import(m1, 0, nil) })
		t.Log(kind, o.Rec.Ok, o.Rec.Err, o.Touched(), CheckRelease(o, Release{Source: 13, Param: ToParam(p)}))
		for _, rec := range []*nat.CallRecord{s.Import(m1, 0, nil), s.Import(m1, 1, nil), s.Import(m2, 2, nil)} {
			t.Log(kind, "replay", rec.Ok, rec.Err)
		}
	}
}

func TestBTCSmoke(t *testing.T) {
	rng := rand.New(rand.NewSource(3))
	w, err := NewWorld(config.NETWORK_ID_MAIN_NET, pk.NewKeys(rng, 4), pk.NewKey(rng))
	if err != nil {
		t.Fatal(err)
	}
	if err := w.RegisterAndApprove(ChainSpec{ID: 20, Router: utils.ETH_ROUTER}); err != nil {
		t.Fatal(err)
	}
	s, err := w.NewBTCSource(rng, 15, 20)
	if err != nil {
		t.Fatal(err)
	}
	a, b, c := s.Encodings(rng)
	o := w.Do(func() *nat.CallRecord { return s.Import(a, s.Height, s.Proof) })
	t.Log(o.Rec.Ok, o.Rec.Err, o.Touched(), len(o.Rec.CrossHashes), w.Done(15, s.TxID()))
	for _, raw := range [][]byte{a, b, c} {
		rec := s.Import(raw, s.Height, s.Proof)
		t.Log("replay", rec.Ok, rec.Err)
	}
}
