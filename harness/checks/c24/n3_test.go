package c24

// NEO N3 state roots: the tracked set is the state-validator list of the real neo3_state_manager
// contract (installed through registerStateValidator + approvals); state roots are judged by the
// exported neo3.VerifyCrossChainMsgSig. (n3l_test.go is generated from this file by sed for the
// neo3legacy router.)

import (
	"fmt"
	"sort"
	"testing"

	pcommon "github.com/polynetwork/poly/common"
	"github.com/polynetwork/poly/native/service/governance/neo3_state_manager"
	pn3 "github.com/polynetwork/poly/native/service/header_sync/neo3"

	"verifharness/kit"
	"verifharness/kit/nat"
	"verifharness/kit/pk"
	"verifharness/synth/chains"
	n3 "verifharness/synth/n3synth"

	n3keys "github.com/joeqian10/neo3-gogogo/keys"
)

const n3Magic = 844378958

func n3Round(t *testing.T, r *kit.Run, n, cases int, thresholds map[int]int) {
	const R = "neo3"
	rng := r.Rand(fmt.Sprintf("%s-%d", R, n))
	e := nat.New(netID)
	if err := e.InitGovernance(pk.NewKeys(rng, 4)); err != nil {
		t.Fatal(err)
	}
	ks := n3.NewKeys(rng, n)
	all := n3.FromKeys(ks, 1)
	if err := chains.RegisterStateValidators(e, all.PubStrings()); err != nil {
		r.Inconclusive(R + ": " + err.Error())
		return
	}
	if b, err := neo3_state_manager.GetCurrentStateValidator(e.Service()); err != nil || len(b) == 0 {
		r.Inconclusive(R + ": state validators not installed")
		return
	}
	idx := uint32(1000)
	verify := func(script *n3.Set, kinds []n3.SlotKind, who []int) (acc bool, distinct int, raw []byte, sigs [][]byte, verr error) {
		idx++
		var root [32]byte
		rng.Read(root[:])
		sr := n3.StateRoot(idx, root)
		msg := n3.StateRootMessage(sr, n3Magic)
		sigs = script.Sigs(rng, msg, kinds, who)
		n3.SetStateRootWitness(sr, n3.Invocation(sigs), script.Script)
		raw = n3.RawStateRoot(sr)
		ccm := new(pn3.NeoCrossChainMsg)
		if err := ccm.Deserialization(pcommon.NewZeroCopySource(raw)); err != nil {
			return false, 0, raw, sigs, err
		}
		if p := kit.Catch(func() { verr = pn3.VerifyCrossChainMsgSig(e.Service(), n3Magic, ccm) }); p != nil {
			verr = fmt.Errorf("panic: %v", p)
			r.Count(R+"_panics", 1)
		}
		return verr == nil, all.DistinctValid(msg, sigs), raw, sigs, verr
	}
	asc := func(k int) []int {
		p := rng.Perm(n)[:k]
		sort.Ints(p)
		return p
	}
	rp := func(k n3.SlotKind, c int) []n3.SlotKind {
		var out []n3.SlotKind
		for i := 0; i < c; i++ {
			out = append(out, k)
		}
		return out
	}
	// calibration: honest k-of-n witnesses, k distinct validators
	T := -1
	for k := 1; k <= n; k++ {
		acc, _, _, _, _ := verify(n3.FromKeys(ks, k), rp(n3.Valid, k), asc(k))
		r.Eval(1)
		r.Distinct(R, "calibrate", n, k, acc)
		if acc {
			r.Count(R+"_honest_accepted", 1)
			if T < 0 {
				T = k
			}
		}
	}
	if T < 0 {
		r.Inconclusive(fmt.Sprintf("%s n=%d: no honest state root accepted", R, n))
		return
	}
	thresholds[n] = T
	// NEO N3 fixes the quorum of the designated state validators: m = n - (n-1)/3 (n - f with
	// f = (n-1)/3). A router that accepts an honest witness of fewer validators tracks a weaker set
	// of signers than the chain's own rule.
	if doc := n - (n-1)/3; T < doc {
		viol(r, R+":stateroot-quorum-below-n-minus-f", fmt.Sprintf("n=%d state validators: a state root with an honest %d-of-%d witness is accepted, NEO N3 requires %d", n, T, n, doc),
			map[string]interface{}{"router": R, "n": n, "accepted_k_of_n": T, "required_by_neo_n3": doc, "state_validators": all.PubStrings(), "magic": n3Magic})
	}
	tracked := n3.FromKeys(ks, T)
	for i := 0; i < cases; i++ {
		script := tracked
		var kinds []n3.SlotKind
		who := asc(n)
		shape := ""
		switch rng.Intn(10) {
		case 8:
			shape = "below-padded-with-garbage"
			kinds = rp(n3.Valid, T-1)
			for len(kinds) < T+rng.Intn(2) {
				kinds = append(kinds, n3.Garbage)
			}
			if rng.Intn(2) == 0 {
				rng.Shuffle(len(kinds), func(a, b int) { kinds[a], kinds[b] = kinds[b], kinds[a] })
			}
		case 9:
			shape = "more-slots-than-keys"
			kinds = rp(n3.Valid, T-1)
			for len(kinds) < n+1+rng.Intn(2) {
				kinds = append(kinds, []n3.SlotKind{n3.Garbage, n3.DupSameSig, n3.Foreign}[rng.Intn(3)])
			}
		case 0:
			shape = "honest"
			k := T + rng.Intn(2)
			if k > n {
				k = n
			}
			who = asc(k)
			kinds = rp(n3.Valid, k)
		case 1:
			shape = "subset-below"
			kinds = rp(n3.Valid, T-1)
		case 2:
			shape = "one-key-repeated"
			kinds = append(rp(n3.Valid, 1), rp([]n3.SlotKind{n3.DupSameSig, n3.DupFreshSig}[rng.Intn(2)], T-1+rng.Intn(2))...)
		case 3:
			shape = "below-plus-repeats"
			d := 1
			if T > 2 {
				d = 1 + rng.Intn(T-1)
			}
			kinds = rp(n3.Valid, d)
			for len(kinds) < T+rng.Intn(2) {
				kinds = append(kinds, []n3.SlotKind{n3.DupSameSig, n3.DupFreshSig}[rng.Intn(2)])
			}
		case 4:
			shape = "below-plus-foreign"
			kinds = rp(n3.Valid, T-1)
			for len(kinds) < T+rng.Intn(2) {
				kinds = append(kinds, []n3.SlotKind{n3.Foreign, n3.BadSig}[rng.Intn(2)])
			}
			rng.Shuffle(len(kinds), func(a, b int) { kinds[a], kinds[b] = kinds[b], kinds[a] })
		case 5:
			shape = "wrong-script-other-committee"
			script = n3.FromKeys(n3.NewKeys(rng, n), T)
			kinds = rp(n3.Valid, T)
		case 6:
			shape = "wrong-script-weaker-threshold"
			if T < 2 {
				continue
			}
			w := 1 + rng.Intn(T-1)
			script = n3.FromKeys(ks, w)
			kinds = rp(n3.Valid, w)
			who = asc(w)
		case 7:
			shape = "random"
			for j := rng.Intn(n + 2); j > 0; j-- {
				kinds = append(kinds, n3.SlotKind(rng.Intn(int(n3.NKinds))))
			}
			if rng.Intn(2) == 0 {
				who = rng.Perm(n)
			}
		}
		acc, distinct, raw, _, verr := verify(script, kinds, who)
		kn := []string{}
		for _, k := range kinds {
			kn = append(kn, k.String())
		}
		r.Eval(1)
		r.Distinct(R, n, shape, fmt.Sprint(kn), acc)
		r.Count(R+"_shape_"+shape, 1)
		replay := map[string]interface{}{"router": R, "n": n, "threshold": T, "shape": shape, "slot_kinds": kn, "signer_order": who, "state_validators": all.PubStrings(),
			"state_root_hex": kit.Hex(raw), "distinct_validator_signers": distinct, "accepted": acc, "err": fmt.Sprint(verr), "magic": n3Magic}
		if !acc {
			r.Count(R+"_refused", 1)
			if shape == "honest" {
				r.Count(R+"_honest_refused", 1)
			}
			continue
		}
		r.Count(R+"_accepted", 1)
		switch {
		case script.Hash.String() != tracked.Hash.String():
			viol(r, R+":stateroot-wrong-script-accepted", fmt.Sprintf("state root accepted with a verification script (%s) that is not the state validators' %d-of-%d script", shape, T, n), replay)
		case distinct < T:
			key := R + ":stateroot-below-threshold-accepted"
			for _, k := range kinds {
				if k == n3.DupSameSig || k == n3.DupFreshSig {
					key = R + ":stateroot-duplicate-signer-counted"
				}
			}
			viol(r, key, fmt.Sprintf("state root accepted with %d distinct state-validator signer(s), needs %d of %d", distinct, T, n), replay)
		}
	}
}

// n3Reregistration: the tracked state-validator set is built through SEVERAL approved registration
// rounds that re-submit already tracked keys (first / middle / last of the first round, random
// ones, sometimes together with a new key). The model owns the expectation: the tracked set is the
// set of DISTINCT registered keys (D of them) and a state root needs D-(D-1)/3 distinct signers
// (NEO N3 rule). The submitter then reads the stored list like anybody can and builds its witness
// over that list as stored (copies included, if the contract kept any), letting every listed copy
// of a re-submitted key sign.
func n3Reregistration(t *testing.T, r *kit.Run, d, rep, cases int) {
	const R = "neo3"
	rng := r.Rand(fmt.Sprintf("%s-rereg-%d-%d", R, d, rep))
	e := nat.New(netID)
	if err := e.InitGovernance(pk.NewKeys(rng, 4)); err != nil {
		t.Fatal(err)
	}
	ks := n3.NewKeys(rng, d)
	byPub := map[string]*n3keys.KeyPair{}
	var order []string // distinct tracked keys in registration order (the model)
	add := func(list []*n3keys.KeyPair) []string {
		var pubs []string
		for _, k := range list {
			p := k.PublicKey.String()
			pubs = append(pubs, p)
			if byPub[p] == nil {
				byPub[p] = k
				order = append(order, p)
			}
		}
		return pubs
	}
	if err := chains.RegisterStateValidators(e, add(ks)); err != nil {
		r.Inconclusive(R + " re-registration: " + err.Error())
		return
	}
	var resubmitted []string
	rounds := 1 + rng.Intn(3)
	for i := 0; i < rounds; i++ {
		var list []*n3keys.KeyPair
		pos := []string{"first", "middle", "last", "random"}[(i+rng.Intn(2))%4]
		if i == 0 {
			pos = []string{"first", "last", "middle"}[rng.Intn(3)]
		}
		var p string
		switch pos {
		case "first":
			p = order[0]
		case "middle":
			p = order[len(order)/2]
		case "last":
			p = order[len(order)-1]
		default:
			p = order[rng.Intn(len(order))]
		}
		list = append(list, byPub[p])
		resubmitted = append(resubmitted, p)
		r.Count(R+"_resubmitted_"+pos, 1)
		if rng.Intn(4) == 0 {
			list = append(list, n3.NewKey(rng)) // together with a new validator
		}
		if err := chains.RegisterStateValidators(e, add(list)); err != nil {
			r.Inconclusive(R + " re-registration: " + err.Error())
			return
		}
		r.Count(R+"_reregistration_rounds", 1)
	}
	D := len(order)
	required := D - (D-1)/3
	raw, err := neo3_state_manager.GetCurrentStateValidator(e.Service())
	if err != nil {
		r.Inconclusive(R + ": " + err.Error())
		return
	}
	stored, err := neo3_state_manager.DeserializeStringArray(raw)
	if err != nil {
		r.Inconclusive(R + ": " + err.Error())
		return
	}
	if len(stored) != D {
		r.Count(R+"_stored_list_differs_from_distinct_set", 1)
	}
	var listed []*n3keys.KeyPair
	for _, p := range stored {
		if byPub[p] == nil {
			r.Inconclusive(R + ": stored list holds an unknown key")
			return
		}
		listed = append(listed, byPub[p])
	}
	var distinctKeys []*n3keys.KeyPair
	for _, p := range order {
		distinctKeys = append(distinctKeys, byPub[p])
	}
	model := n3.FromKeys(distinctKeys, required)
	L := len(listed)
	isRe := map[string]bool{}
	for _, p := range resubmitted {
		isRe[p] = true
	}
	for i := 0; i < cases; i++ {
		// the submitter's guess of the contract threshold over the stored list
		mp := []int{L - (L-1)/3, required, required - 1}[rng.Intn(3)]
		if mp < 1 {
			mp = 1
		}
		if mp > L {
			mp = L
		}
		script := n3.FromKeys(listed, mp)
		// positions (script order): every listed copy of a re-submitted key first, then others
		var who, rest []int
		for j, k := range script.Keys {
			if isRe[k.PublicKey.String()] {
				who = append(who, j)
			} else {
				rest = append(rest, j)
			}
		}
		shape := []string{"every-listed-copy-signs", "honest-distinct", "one-short"}[rng.Intn(3)]
		want := mp
		if shape == "one-short" {
			want = mp - 1
		}
		if shape == "honest-distinct" {
			// distinct keys only
			seen := map[string]bool{}
			who, rest = nil, nil
			for j, k := range script.Keys {
				if !seen[k.PublicKey.String()] {
					seen[k.PublicKey.String()] = true
					rest = append(rest, j)
				}
			}
		}
		rng.Shuffle(len(rest), func(a, b int) { rest[a], rest[b] = rest[b], rest[a] })
		for len(who) < want && len(rest) > 0 {
			who, rest = append(who, rest[0]), rest[1:]
		}
		if len(who) > want {
			who = who[:want]
		}
		sort.Ints(who)
		if len(who) == 0 {
			continue
		}
		var root [32]byte
		rng.Read(root[:])
		sr := n3.StateRoot(uint32(5000+i), root)
		msg := n3.StateRootMessage(sr, n3Magic)
		kinds := make([]n3.SlotKind, len(who)) // all Valid
		sigs := script.Sigs(rng, msg, kinds, who)
		n3.SetStateRootWitness(sr, n3.Invocation(sigs), script.Script)
		rawSR := n3.RawStateRoot(sr)
		ccm := new(pn3.NeoCrossChainMsg)
		if err := ccm.Deserialization(pcommon.NewZeroCopySource(rawSR)); err != nil {
			r.Inconclusive(R + ": state root does not round-trip")
			return
		}
		var verr error
		if p := kit.Catch(func() { verr = pn3.VerifyCrossChainMsgSig(e.Service(), n3Magic, ccm) }); p != nil {
			verr = fmt.Errorf("panic: %v", p)
		}
		acc := verr == nil
		distinct := model.DistinctValid(msg, sigs)
		r.Eval(1)
		r.Distinct(R, "rereg", D, L, mp, shape, len(who), distinct, acc)
		r.Count(R+"_rereg_shape_"+shape, 1)
		if !acc {
			r.Count(R+"_rereg_refused", 1)
			continue
		}
		r.Count(R+"_rereg_accepted", 1)
		if distinct < required {
			viol(r, R+":stateroot-resubmitted-validator-counted-twice",
				fmt.Sprintf("state root accepted with %d signature(s) of %d distinct state validator(s); %d distinct validators are tracked (registered over %d rounds, %d key(s) re-submitted), %d distinct signers required; stored list has %d entries",
					len(sigs), distinct, D, rounds+1, len(resubmitted), required, L),
				map[string]interface{}{"router": R, "distinct_tracked_validators": order, "resubmitted": resubmitted, "stored_list": stored, "script_m": mp, "signer_positions": who,
					"state_root_hex": kit.Hex(rawSR), "distinct_signers": distinct, "required": required, "magic": n3Magic})
		}
	}
}
