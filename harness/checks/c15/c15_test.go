// C15: transaction execution is atomic.
//
// Blocks of scripted probe-contract transactions are executed by the REAL ledger
// (ExecuteBlock -> executeBlock -> HandleInvokeTransaction -> NativeService.Invoke) with a failure
// injected after step k of the script for EVERY k, next to really failing calls (unknown method,
// unregistered contract, garbage payload, wrong chain id). The oracle is a sequential reference
// model written from the property statement: the state after a block is the state before it plus
// the writes of exactly the successful transactions, in order; a failed transaction leaves no
// write, no cross-chain leaf and no notification; every read a transaction makes (the probe echoes
// them) sees only the committed effects of earlier successful transactions plus its own writes.
// After SubmitBlock the persisted state and the event store must agree with the same model.
package c15

import (
	"bytes"
	"crypto/sha256"
	"encoding/hex"
	"fmt"
	"math/rand"
	"os"
	"sort"
	"strings"
	"testing"

	"verifharness/kit"
	"verifharness/kit/pk"
	"verifharness/probe"

	"github.com/polynetwork/poly/common"
	"github.com/polynetwork/poly/core/ledger"
	"github.com/polynetwork/poly/core/states"
	scommon "github.com/polynetwork/poly/core/store/common"
	"github.com/polynetwork/poly/core/types"
	"github.com/polynetwork/poly/native/event"
	scom "github.com/polynetwork/poly/native/service/cross_chain_manager/common"
	"github.com/polynetwork/poly/native/service/utils"
)

// ---------------------------------------------------------------------------------------------
// reference model

type world struct {
	kv     map[string][]byte // probe key suffix -> value
	req    map[string][]byte // full storage key of a cross-chain request -> record bytes
	chains map[uint64]bool   // side-chain ids with a pending registration
}

func newWorld() *world {
	return &world{kv: map[string][]byte{}, req: map[string][]byte{}, chains: map[uint64]bool{}}
}

func (w *world) clone() *world {
	c := newWorld()
	for k, v := range w.kv {
		c.kv[k] = v
	}
	for k, v := range w.req {
		c.req[k] = v
	}
	for k := range w.chains {
		c.chains[k] = true
	}
	return c
}

// outcome of one transaction according to the model
type outcome struct {
	ok       bool
	w        *world // state if ok
	echoes   []string
	foreign  int        // notifications expected from real contracts
	leaves   [][32]byte // leaves emitted (all of them if ok)
	maybe    [][32]byte // leaves whose survival is unspecified (ignored nested failure)
	fuzzy    bool       // an ignored nested failure happened: notifications / leaves not fully specified
	touched  map[string]bool
	scmWrite bool
	readsOfDirty int
}

func leafHash(data []byte) [32]byte {
	return sha256.Sum256(append([]byte{0}, data...))
}

func echoStr(path, kind, a, b string) string { return path + "|" + kind + "|" + a + "|" + b }

type runner struct {
	o       *outcome
	signers map[common.Address]bool
	txHash  common.Uint256
	dirty   map[string]bool // probe keys written by failed txs of this block since the last successful write
}

func requestKey(toChain uint64, txHash common.Uint256) []byte {
	var le [8]byte
	for i := 0; i < 8; i++ {
		le[i] = byte(toChain >> (8 * uint(i)))
	}
	k := append([]byte{}, utils.CrossChainManagerContractAddress[:]...)
	k = append(k, []byte("request")...)
	k = append(k, le[:]...)
	return append(k, txHash.ToArray()...)
}

// run interprets a script; returns false if the call fails.
func (r *runner) run(s probe.Script, prefix string, depth int) bool {
	o := r.o
	for i, op := range s {
		path := fmt.Sprint(i)
		if prefix != "" {
			path = prefix + "." + path
		}
		switch op.Kind {
		case probe.KPut:
			o.w.kv[string(op.Key)] = append([]byte{}, op.Val...)
			o.touched[string(probe.StorageKey(op.Key))] = true
		case probe.KDelete:
			delete(o.w.kv, string(op.Key))
			o.touched[string(probe.StorageKey(op.Key))] = true
		case probe.KGet:
			v, ok := o.w.kv[string(op.Key)]
			if r.dirty[string(op.Key)] && !o.touched[string(probe.StorageKey(op.Key))] {
				o.readsOfDirty++
			}
			if ok {
				o.echoes = append(o.echoes, echoStr(path, "get", hex.EncodeToString(op.Key), hex.EncodeToString(v)))
			} else {
				o.echoes = append(o.echoes, echoStr(path, "get", hex.EncodeToString(op.Key), "absent"))
			}
		case probe.KMerkle:
			o.leaves = append(o.leaves, leafHash(op.Val))
		case probe.KNotify:
			o.echoes = append(o.echoes, echoStr(path, "note", hex.EncodeToString(op.Val), ""))
		case probe.KWitness:
			w := r.signers[op.Addr] || (depth > 0 && op.Addr == probe.Address)
			o.echoes = append(o.echoes, echoStr(path, "witness", hex.EncodeToString(op.Addr[:]), fmt.Sprint(w)))
		case probe.KContext:
			calling := common.ADDRESS_EMPTY
			if depth > 0 {
				calling = probe.Address
			}
			o.echoes = append(o.echoes, echoStr(path, "context", hex.EncodeToString(probe.Address[:]), hex.EncodeToString(calling[:])))
		case probe.KFail:
			return false
		case probe.KMakeTx:
			p := new(scom.MakeTxParam)
			if err := p.Deserialization(common.NewZeroCopySource(op.Val)); err != nil {
				return false
			}
			mv := &scom.ToMerkleValue{TxHash: r.txHash.ToArray(), FromChainID: op.U64, MakeTxParam: p}
			sink := common.NewZeroCopySink(nil)
			mv.Serialization(sink)
			rec := append([]byte{}, sink.Bytes()...)
			k := requestKey(p.ToChainID, r.txHash)
			o.w.req[string(k)] = rec
			o.touched[string(k)] = true
			o.leaves = append(o.leaves, leafHash(rec))
			o.foreign++
		case probe.KCall:
			if op.Addr == probe.Address && op.Name == probe.Method {
				sub, err := probe.Decode(op.Val)
				okc := err == nil
				var before int
				if okc {
					before = len(o.leaves)
					okc = r.run(sub, path, depth+1)
				}
				if !okc {
					if !op.Flag {
						return false
					}
					// caller ignores the failure: the callee's writes stay (no sub-transactions, by
					// design); what happens to notifications / leaves emitted so far is not specified.
					o.fuzzy = true
					o.maybe = append(o.maybe, o.leaves...)
					o.leaves = nil
					_ = before
				}
				continue
			}
			okc := false
			if op.Addr == utils.SideChainManagerContractAddress && op.Name == "registerSideChain" {
				if addr, id, good := parseRegister(op.Val); good {
					wit := r.signers[addr] || addr == probe.Address // the probe is the calling contract
					if wit && !o.w.chains[id] {
						o.w.chains[id] = true
						o.scmWrite = true
						o.foreign++
						okc = true
					}
				}
			}
			if !okc {
				if !op.Flag {
					return false
				}
				o.fuzzy = true
				o.maybe = append(o.maybe, o.leaves...)
				o.leaves = nil
			}
		default:
			return false
		}
	}
	return true
}

func registerArgs(addr common.Address, id uint64) []byte {
	sink := common.NewZeroCopySink(nil)
	sink.WriteVarBytes(addr[:])
	sink.WriteVarUint(id)
	sink.WriteVarUint(2) // router
	sink.WriteVarBytes([]byte(fmt.Sprintf("chain-%d", id)))
	sink.WriteVarUint(1)
	sink.WriteVarBytes([]byte{1, 2, 3})
	sink.WriteVarBytes([]byte{})
	return sink.Bytes()
}

func parseRegister(b []byte) (common.Address, uint64, bool) {
	src := common.NewZeroCopySource(b)
	a, eof := src.NextVarBytes()
	if eof || len(a) != 20 {
		return common.Address{}, 0, false
	}
	var addr common.Address
	copy(addr[:], a)
	id, eof := src.NextVarUint()
	if eof {
		return addr, 0, false
	}
	// the generator only produces complete argument lists or a truncated prefix of the address
	return addr, id, src.Len() > 0
}

// ---------------------------------------------------------------------------------------------
// generator

type gen struct {
	rng     *rand.Rand
	keys    [][]byte
	accts   []*pk.Key
	nextID  uint64
	recent  []uint64
	toChain uint64
}

func (g *gen) val() []byte {
	n := g.rng.Intn(6)
	if g.rng.Intn(10) == 0 {
		n = 0
	}
	b := make([]byte, n)
	g.rng.Read(b)
	return b
}

func (g *gen) key() []byte { return g.keys[g.rng.Intn(len(g.keys))] }

func (g *gen) script(depth int, signer *pk.Key) probe.Script {
	n := 1 + g.rng.Intn(7)
	if depth > 0 {
		n = 1 + g.rng.Intn(3)
	}
	var s probe.Script
	for i := 0; i < n; i++ {
		x := g.rng.Intn(100)
		switch {
		case x < 24:
			s = append(s, probe.Put(g.key(), g.val()))
		case x < 34:
			s = append(s, probe.Delete(g.key()))
		case x < 58:
			s = append(s, probe.Get(g.key()))
		case x < 68:
			d := g.val()
			if g.rng.Intn(4) == 0 {
				d = []byte("same-leaf") // equal leaves inside and across transactions
			}
			s = append(s, probe.Merkle(d))
		case x < 72:
			s = append(s, probe.Notify(g.val()))
		case x < 82 && depth < 2:
			sub := g.script(depth+1, signer)
			ignore := false
			switch g.rng.Intn(6) {
			case 0: // callee fails after some of its steps, caller propagates
				sub = sub.FailAfter(g.rng.Intn(len(sub) + 1))
			case 1: // callee fails, caller ignores (by design the callee's writes stay)
				sub = sub.FailAfter(g.rng.Intn(len(sub) + 1))
				// NativeService leaves the context stack of a failed callee in place; with only probe
				// frames on it later witness checks are unaffected, so real calls stay out of ignored callees
				ignore = !hasRealCall(sub)
			}
			s = append(s, probe.CallSelf(sub, ignore))
		case x < 86:
			a := g.accts[g.rng.Intn(len(g.accts))].Addr
			if g.rng.Intn(4) == 0 {
				a = probe.Address
			}
			s = append(s, probe.Witness(a))
		case x < 88:
			s = append(s, probe.Context())
		case x < 93:
			g.toChain++
			p := &scom.MakeTxParam{TxHash: g.val(), CrossChainID: g.val(), FromContractAddress: g.val(),
				ToChainID: 1000 + g.toChain, ToContractAddress: g.val(), Method: "unlock", Args: g.val()}
			s = append(s, probe.MakeTx(p, uint64(1+g.rng.Intn(5))))
		default:
			s = append(s, g.realCall(signer))
		}
	}
	return s
}

func (g *gen) realCall(signer *pk.Key) probe.Op {
	scm := utils.SideChainManagerContractAddress
	switch g.rng.Intn(8) {
	case 0:
		return probe.Call(scm, "noSuchMethod", nil, false)
	case 1:
		var unk common.Address
		g.rng.Read(unk[:])
		return probe.Call(unk, "x", nil, false)
	case 2:
		return probe.Call(scm, "registerSideChain", []byte{20, 1, 2}, false) // truncated params
	case 3: // registration for an address that did not sign
		g.nextID++
		var other common.Address
		g.rng.Read(other[:])
		return probe.Call(scm, "registerSideChain", registerArgs(other, g.nextID), false)
	default:
		var id uint64
		if len(g.recent) > 0 && g.rng.Intn(4) == 0 {
			id = g.recent[g.rng.Intn(len(g.recent))] // maybe already pending, maybe its registration was rolled back
		} else {
			g.nextID++
			id = g.nextID
			g.recent = append(g.recent, id)
			if len(g.recent) > 12 {
				g.recent = g.recent[1:]
			}
		}
		addr := probe.Address
		if signer != nil && g.rng.Intn(2) == 0 {
			addr = signer.Addr
		}
		return probe.Call(scm, "registerSideChain", registerArgs(addr, id), false)
	}
}

func hasRealCall(s probe.Script) bool {
	for _, op := range s {
		if op.Kind == probe.KCall {
			if op.Addr != probe.Address {
				return true
			}
			if sub, err := probe.Decode(op.Val); err != nil || hasRealCall(sub) {
				return true
			}
		}
	}
	return false
}

func shape(s probe.Script) string {
	var b strings.Builder
	for _, op := range s {
		b.WriteString(fmt.Sprint(int(op.Kind)))
		if op.Kind == probe.KCall {
			if op.Addr == probe.Address {
				sub, _ := probe.Decode(op.Val)
				b.WriteString("(" + shape(sub) + ")")
			} else {
				b.WriteString("[" + op.Name + "]")
			}
			if op.Flag {
				b.WriteString("i")
			}
		}
		b.WriteString(",")
	}
	return b.String()
}

// one planned transaction
type plan struct {
	kind   string // probe | unknown-method | unknown-contract | garbage | wrong-chain
	base   probe.Script
	k      int // failure injected after k steps (-1: none)
	signer *pk.Key
	tx     *types.Transaction
}

func sortedCopy(a []string) []string {
	b := append([]string{}, a...)
	sort.Strings(b)
	return b
}

func leavesKey(l [][32]byte) []string {
	out := make([]string, len(l))
	for i := range l {
		out[i] = hex.EncodeToString(l[i][:])
	}
	sort.Strings(out)
	return out
}

func probeEchoes(ns []*event.NotifyEventInfo) (echoes []string, foreign int) {
	for _, n := range ns {
		if e, ok := probe.ParseEcho(n); ok {
			echoes = append(echoes, echoStr(e.Path, e.Kind, e.A, e.B))
		} else {
			foreign++
		}
	}
	return
}

func TestC15(t *testing.T) {
	r := kit.Start(t, "C15", "fault_enumeration")
	defer r.Finish()
	r.Rule("random probe scripts (1-7 steps of put/delete/get/leaf/notify/nested call/witness/real MakeTransaction/real registerSideChain, nesting <= 2) over 6 shared keys; for every script the success variant and the variant failing after step k for EVERY k in 0..len, plus really failing calls; all variants of a batch are shuffled into blocks of 1-12 txs on one real ledger; evaluation = one transaction; distinct = (script shape, k, outcome)")
	r.Exhaustive(false)
	r.Assume("record/StorageItem codecs (C04) are trusted to build expected request bytes and to decode write-set values")
	r.Assume("a nested NativeCall whose failure the CALLER ignores keeps the callee's partial writes (no sub-transactions, by design); for such transactions only state, outcome and the lower/upper bound of leaves are asserted, not the notification list")
	r.Assume("order of leaves / notifications inside one transaction is not part of the property: multisets are compared")

	probe.Register()
	rng := r.Rand("scripts")
	vals := pk.NewKeys(r.Rand("validators"), 1)
	dir := pk.TempDir("c15")
	defer os.RemoveAll(dir)
	chain, l, err := pk.OpenLedger(dir, 7, vals)
	if err != nil {
		t.Fatal(err)
	}
	old := ledger.DefLedger
	ledger.DefLedger = l
	defer func() { ledger.DefLedger = old; chain.Close() }()

	g := &gen{rng: rng, accts: pk.NewKeys(r.Rand("accounts"), 3)}
	for i := 0; i < 6; i++ {
		g.keys = append(g.keys, []byte{byte('a' + i)})
	}
	g.keys = append(g.keys, []byte{}) // the empty key

	committed := newWorld()
	everKeys := map[string]bool{}
	everReq := map[string]bool{}
	nScripts := r.N(600, 12000)
	batch := 6
	for done := 0; done < nScripts; done += batch {
		// ---- plan a batch: every k of every script
		var plans []*plan
		for b := 0; b < batch && done+b < nScripts; b++ {
			var signer *pk.Key
			if rng.Intn(5) != 0 {
				signer = g.accts[rng.Intn(len(g.accts))]
			}
			base := g.script(0, signer)
			for k := -1; k <= len(base); k++ {
				plans = append(plans, &plan{kind: "probe", base: base, k: k, signer: signer})
			}
			// two more copies of the unfailed script (other nonces) so that committed state keeps moving
			plans = append(plans, &plan{kind: "probe", base: base, k: -1, signer: signer}, &plan{kind: "probe", base: base, k: -1, signer: signer})
			r.Count("scripts", 1)
		}
		for _, kind := range []string{"unknown-method", "unknown-contract", "garbage", "wrong-chain"} {
			if rng.Intn(2) == 0 {
				plans = append(plans, &plan{kind: kind, k: -1})
			}
		}
		rng.Shuffle(len(plans), func(i, j int) { plans[i], plans[j] = plans[j], plans[i] })
		// ---- cut into blocks
		for len(plans) > 0 {
			n := 1 + rng.Intn(12)
			if n > len(plans) {
				n = len(plans)
			}
			blockPlans := plans[:n]
			plans = plans[n:]
			runBlock(r, chain, g, blockPlans, &committed, everKeys, everReq)
			if r.Violations() > 10 {
				return
			}
		}
	}
	r.Require("tx_success", nScripts/2)
	r.Require("tx_failed_injected", nScripts)
	r.Require("tx_failed_real", 5)
	r.Require("failed_tx_with_prior_writes", nScripts/4)
	r.Require("failed_tx_with_prior_leaves", nScripts/20)
	r.Require("failed_tx_after_real_contract_write", 3)
	r.Require("reads_of_keys_touched_by_failed_tx", nScripts/10)
	r.Require("persisted_keys_checked", nScripts)
	r.Require("event_store_records_checked", nScripts)
	r.Require("blocks", nScripts/10)
}

func buildTx(chain *pk.Chain, g *gen, p *plan) {
	var signers []pk.Signer
	if p.signer != nil {
		signers = append(signers, pk.Single(p.signer))
	}
	chain.Nonce++
	switch p.kind {
	case "probe":
		p.tx = pk.MakeTx(chain.ChainID, chain.Nonce, pk.InvokeCode(probe.Address, probe.Method, probe.Encode(p.base.FailAfter(p.k))), signers...)
	case "unknown-method":
		p.tx = pk.MakeTx(chain.ChainID, chain.Nonce, pk.InvokeCode(utils.NodeManagerContractAddress, "noSuchMethod", []byte{1}))
	case "unknown-contract":
		var a common.Address
		g.rng.Read(a[:])
		p.tx = pk.MakeTx(chain.ChainID, chain.Nonce, pk.InvokeCode(a, "run", nil))
	case "garbage":
		code := make([]byte, 1+g.rng.Intn(30))
		g.rng.Read(code)
		code[0] = 0xff // not a valid address/method prefix in practice; any decode or dispatch error will do
		p.tx = pk.MakeTx(chain.ChainID, chain.Nonce, code)
	case "wrong-chain":
		s := probe.Script{probe.Put([]byte("a"), []byte("wrong-chain")), probe.Merkle([]byte("wrong-chain"))}
		p.tx = pk.MakeTx(chain.ChainID+1, chain.Nonce, pk.InvokeCode(probe.Address, probe.Method, probe.Encode(s)))
	}
}

func hasPrior(s probe.Script, kinds ...probe.Kind) bool {
	for _, op := range s {
		for _, k := range kinds {
			if op.Kind == k {
				return true
			}
		}
		if op.Kind == probe.KCall && op.Addr == probe.Address {
			if sub, err := probe.Decode(op.Val); err == nil && hasPrior(sub, kinds...) {
				return true
			}
		}
	}
	return false
}

func runBlock(r *kit.Run, chain *pk.Chain, g *gen, plans []*plan, committedP **world, everKeys, everReq map[string]bool) {
	committed := *committedP
	// ---- model
	cur := committed.clone()
	var outs []*outcome
	var txs []*types.Transaction
	dirty := map[string]bool{}
	blockTouched := map[string]bool{}
	var wantLeaves, maybeLeaves [][32]byte
	anyScm := false
	for _, p := range plans {
		buildTx(chain, g, p)
		txs = append(txs, p.tx)
		o := &outcome{w: cur.clone(), touched: map[string]bool{}}
		if p.kind == "probe" {
			rn := &runner{o: o, signers: map[common.Address]bool{}, txHash: p.tx.Hash(), dirty: dirty}
			if p.signer != nil {
				rn.signers[p.signer.Addr] = true
			}
			o.ok = rn.run(p.base.FailAfter(p.k), "", 0)
		}
		outs = append(outs, o)
		if o.ok {
			cur = o.w
			for k := range o.touched {
				blockTouched[k] = true
				if strings.HasPrefix(k, string(probe.Address[:])) {
					delete(dirty, k[len(probe.Address):])
				}
			}
			wantLeaves = append(wantLeaves, o.leaves...)
			maybeLeaves = append(maybeLeaves, o.maybe...)
			anyScm = anyScm || o.scmWrite
		} else {
			for k := range o.touched {
				if strings.HasPrefix(k, string(probe.Address[:])) {
					dirty[k[len(probe.Address):]] = true
				}
			}
		}
	}
	// ---- real execution
	ctx := map[string]interface{}{"height": chain.Store.GetCurrentBlockHeight() + 1}
	var descr []interface{}
	for _, p := range plans {
		descr = append(descr, map[string]interface{}{"kind": p.kind, "k": p.k, "script": kit.Hex(probe.Encode(p.base)), "tx": kit.Hex(p.tx.ToArray())})
	}
	ctx["txs"] = descr
	blk, res, err := chain.BuildBlock(txs, pk.BlockOpt{})
	if err != nil {
		r.Violation("execute-block-error", fmt.Sprintf("ExecuteBlock failed on a block of probe transactions: %v", err), ctx)
		return
	}
	r.Count("blocks", 1)
	if len(res.Notify) != len(txs) {
		r.Violation("notify-count", fmt.Sprintf("%d execute notifications for %d transactions", len(res.Notify), len(txs)), ctx)
		return
	}
	for i, p := range plans {
		o := outs[i]
		n := res.Notify[i]
		r.Eval(1)
		r.Distinct(p.kind, shape(p.base), p.k, o.ok, o.fuzzy)
		id := fmt.Sprintf("tx#%d kind=%s k=%d shape=%s", i, p.kind, p.k, shape(p.base))
		if n.TxHash != p.tx.Hash() {
			r.Violation("notify-txhash", id+": execute notification carries another tx hash", ctx)
		}
		gotOK := n.State == event.CONTRACT_STATE_SUCCESS
		if gotOK != o.ok {
			key := "failed-tx-reported-success"
			if o.ok {
				key = "successful-tx-reported-failed"
			}
			r.Violation(key, fmt.Sprintf("%s: model ok=%v, ledger state=%d", id, o.ok, n.State), ctx)
			continue
		}
		echoes, foreign := probeEchoes(n.Notify)
		if !o.ok {
			switch {
			case p.kind != "probe":
				r.Count("tx_failed_real", 1)
			default:
				r.Count("tx_failed_injected", 1)
			}
			sent := p.base.FailAfter(p.k)
			if hasPrior(sent, probe.KPut, probe.KDelete) {
				r.Count("failed_tx_with_prior_writes", 1)
			}
			if hasPrior(sent, probe.KMerkle, probe.KMakeTx) {
				r.Count("failed_tx_with_prior_leaves", 1)
			}
			if o.scmWrite {
				r.Count("failed_tx_after_real_contract_write", 1)
			}
			if len(n.Notify) != 0 {
				r.Violation("failed-tx-has-notifications", fmt.Sprintf("%s: failed transaction carries %d notifications", id, len(n.Notify)), ctx)
			}
			continue
		}
		r.Count("tx_success", 1)
		r.Count("reads_of_keys_touched_by_failed_tx", o.readsOfDirty)
		if o.fuzzy {
			r.Count("tx_success_with_ignored_nested_failure", 1)
			continue
		}
		if strings.Join(sortedCopy(echoes), "\n") != strings.Join(sortedCopy(o.echoes), "\n") {
			r.Violation("successful-tx-notifications-differ", fmt.Sprintf("%s: echoes differ from the sequential model\n got  %v\n want %v", id, sortedCopy(echoes), sortedCopy(o.echoes)), ctx)
		}
		if foreign != o.foreign {
			r.Violation("successful-tx-real-notifications-differ", fmt.Sprintf("%s: %d notifications of real contracts, want %d", id, foreign, o.foreign), ctx)
		}
		r.Count("echoes_compared", len(o.echoes))
	}
	// cross hashes of the block: exactly the leaves of the successful transactions
	var got [][32]byte
	for _, h := range res.CrossHashes {
		got = append(got, [32]byte(h))
	}
	if miss, extra := multisetDiff(leavesKey(wantLeaves), leavesKey(got)); len(miss) > 0 {
		r.Violation("leaf-of-successful-tx-missing", fmt.Sprintf("leaves of successful transactions missing from ExecuteResult.CrossHashes: %v", miss), ctx)
	} else if _, e2 := multisetDiff(leavesKey(maybeLeaves), extra); len(e2) > 0 {
		r.Violation("leaf-without-successful-tx", fmt.Sprintf("ExecuteResult.CrossHashes contains leaves no successful transaction emitted: %v", e2), ctx)
	}
	if len(maybeLeaves) > 0 {
		// observation only: leaves emitted before / inside an ignored nested failure that did not survive
		_, extra := multisetDiff(leavesKey(wantLeaves), leavesKey(got))
		dropped, _ := multisetDiff(leavesKey(maybeLeaves), extra)
		r.Count("unspecified_leaves_before_ignored_nested_failure", len(maybeLeaves))
		r.Count("unspecified_leaves_dropped_by_ledger", len(dropped))
	}
	r.Count("leaves_compared", len(wantLeaves))
	if (len(res.CrossHashes) == 0) != (res.CrossStatesRoot == common.UINT256_EMPTY) {
		r.Violation("cross-root-zero-mismatch", fmt.Sprintf("%d cross hashes but root %x", len(res.CrossHashes), res.CrossStatesRoot[:]), ctx)
	}
	// write set: every key was written by a successful transaction, and applying it gives the model state
	scmKeys := 0
	res.WriteSet.ForEach(func(key, val []byte) {
		if len(key) < 21 || key[0] != byte(scommon.ST_STORAGE) {
			r.Violation("write-set-foreign-namespace", fmt.Sprintf("write set contains key %x", key), ctx)
			return
		}
		k := string(key[1:])
		contract := key[1:21]
		switch {
		case bytes.Equal(contract, utils.SideChainManagerContractAddress[:]):
			scmKeys++
			if !anyScm {
				r.Violation("failed-tx-left-real-contract-write", fmt.Sprintf("write set contains side-chain-manager key %x although no successful transaction registered a chain", key[1:]), ctx)
			}
			return
		case bytes.Equal(contract, probe.Address[:]), bytes.Equal(contract, utils.CrossChainManagerContractAddress[:]):
		default:
			r.Violation("write-set-foreign-namespace", fmt.Sprintf("write set contains key %x", key), ctx)
			return
		}
		if !blockTouched[k] {
			r.Violation("failed-tx-left-write", fmt.Sprintf("write set contains key %x (value %x) that no successful transaction wrote", key[1:], val), ctx)
			return
		}
		var want []byte
		present := false
		if bytes.Equal(contract, probe.Address[:]) {
			want, present = cur.kv[k[20:]]
		} else {
			want, present = cur.req[k]
		}
		if !present {
			if len(val) != 0 {
				r.Violation("write-set-value-differs", fmt.Sprintf("key %x: model says deleted, write set has %x", key[1:], val), ctx)
			}
			return
		}
		item := new(states.StorageItem)
		if len(val) == 0 || item.Deserialize(bytes.NewReader(val)) != nil || !bytes.Equal(item.Value, want) {
			r.Violation("write-set-value-differs", fmt.Sprintf("key %x: model value %x, write set has %x", key[1:], want, val), ctx)
		}
	})
	for k := range blockTouched {
		if v, unknown := res.WriteSet.Get(append([]byte{byte(scommon.ST_STORAGE)}, k...)); unknown {
			_ = v
			r.Violation("write-of-successful-tx-missing", fmt.Sprintf("key %x written by a successful transaction is not in the write set", k), ctx)
		}
	}
	if anyScm && scmKeys == 0 {
		r.Violation("write-of-successful-tx-missing", "a successful registerSideChain left no side-chain-manager key in the write set", ctx)
	}
	r.Count("write_set_keys_checked", res.WriteSet.Len())
	// ---- commit and compare the persisted state and the event store
	blk2, err := pk.Reparse(blk)
	if err == nil {
		err = chain.Store.SubmitBlock(blk2, res)
	}
	if err != nil || chain.Store.GetCurrentBlockHeight() != blk.Header.Height {
		r.Violation("submit-failed", fmt.Sprintf("SubmitBlock of the executed block failed: %v", err), ctx)
		return
	}
	*committedP = cur
	for k := range cur.kv {
		everKeys[k] = true
	}
	for k := range blockTouched {
		if strings.HasPrefix(k, string(probe.Address[:])) {
			everKeys[k[20:]] = true
		} else {
			everReq[k] = true
		}
	}
	for _, key := range g.keys {
		everKeys[string(key)] = true
	}
	check := func(contract common.Address, key []byte, want []byte, present bool) {
		item, err := chain.Store.GetStorageItem(&states.StorageKey{ContractAddress: contract, Key: key})
		r.Count("persisted_keys_checked", 1)
		switch {
		case err == scommon.ErrNotFound:
			if present {
				r.Violation("persisted-state-differs", fmt.Sprintf("key %x/%x missing after commit, model has %x", contract[:], key, want), ctx)
			}
		case err != nil:
			r.Violation("persisted-state-read-error", fmt.Sprintf("key %x/%x: %v", contract[:], key, err), ctx)
		case !present:
			r.Violation("persisted-state-differs", fmt.Sprintf("key %x/%x present after commit (%x), model says absent", contract[:], key, item.Value), ctx)
		case !bytes.Equal(item.Value, want):
			r.Violation("persisted-state-differs", fmt.Sprintf("key %x/%x = %x after commit, model has %x", contract[:], key, item.Value, want), ctx)
		}
	}
	for k := range everKeys {
		v, ok := cur.kv[k]
		check(probe.Address, []byte(k), v, ok)
	}
	// requests: all of this block (written or rolled back) plus a bounded sample of older ones
	for i, p := range plans {
		if p.kind != "probe" {
			continue
		}
		forEachMakeTx(p.base, func(to uint64) {
			k := requestKey(to, p.tx.Hash())
			v, ok := cur.req[string(k)]
			check(utils.CrossChainManagerContractAddress, k[20:], v, ok)
			if !outs[i].ok && ok {
				panic("model: failed tx left a request")
			}
		})
	}
	for i, p := range plans {
		n, err := chain.Store.GetEventNotifyByTx(p.tx.Hash())
		r.Count("event_store_records_checked", 1)
		if err != nil {
			r.Violation("event-store-missing", fmt.Sprintf("tx#%d: GetEventNotifyByTx: %v", i, err), ctx)
			continue
		}
		a, fa := probeEchoes(n.Notify)
		b, fb := probeEchoes(res.Notify[i].Notify)
		if n.State != res.Notify[i].State || fa != fb || strings.Join(sortedCopy(a), "\n") != strings.Join(sortedCopy(b), "\n") {
			r.Violation("event-store-differs", fmt.Sprintf("tx#%d: stored event (state %d, %d+%d notifications) differs from the execution result (state %d, %d+%d)", i, n.State, len(a), fa, res.Notify[i].State, len(b), fb), ctx)
		}
		if !outs[i].ok && (n.State != event.CONTRACT_STATE_FAIL || len(n.Notify) != 0) {
			r.Violation("event-store-failed-tx-has-events", fmt.Sprintf("tx#%d: failed transaction stored with state %d and %d notifications", i, n.State, len(n.Notify)), ctx)
		}
	}
	if len(plans) >= 3 {
		var ks []int
		for _, p := range plans {
			ks = append(ks, p.k)
		}
		r.Sample(map[string]interface{}{"height": blk.Header.Height, "txs": len(plans), "fail_after": ks, "first_script": shape(plans[0].base),
			"leaves": len(res.CrossHashes)})
	}
}

func forEachMakeTx(s probe.Script, f func(toChain uint64)) {
	for _, op := range s {
		switch {
		case op.Kind == probe.KMakeTx:
			p := new(scom.MakeTxParam)
			if p.Deserialization(common.NewZeroCopySource(op.Val)) == nil {
				f(p.ToChainID)
			}
		case op.Kind == probe.KCall && op.Addr == probe.Address:
			if sub, err := probe.Decode(op.Val); err == nil {
				forEachMakeTx(sub, f)
			}
		}
	}
}

// multisetDiff of two sorted string lists: elements of want missing from got, and extras of got.
func multisetDiff(want, got []string) (missing, extra []string) {
	cnt := map[string]int{}
	for _, w := range want {
		cnt[w]++
	}
	for _, g := range got {
		if cnt[g] > 0 {
			cnt[g]--
		} else {
			extra = append(extra, g)
		}
	}
	for w, n := range cnt {
		for i := 0; i < n; i++ {
			missing = append(missing, w)
		}
	}
	sort.Strings(missing)
	return
}
