#!/usr/bin/env python3
"""keep_seed.py <seedout-dir> <PROP> <demo-pkg> <confirm-verdict> <caught:yes|no|strengthened> [check ids...]
Copies a confirmed seeded change into /verif/seeded/<PROP>-<n>/ with meta.json."""
import json, os, re, shutil, sys
src, prop, demopkg, verdict, caught = sys.argv[1:6]
checks = sys.argv[6:] or [prop]
base = "/verif/seeded"
os.makedirs(base, exist_ok=True)
n = 1
while os.path.exists(os.path.join(base, "%s-%d" % (prop, n))):
    n += 1
dst = os.path.join(base, "%s-%d" % (prop, n))
os.makedirs(dst)
for root, _, files in os.walk(src):
    for f in files:
        if f == "patch.diff" or f.endswith("_test.go") or f == "notes.md" or f.endswith(".tmpl"):
            rel = os.path.relpath(os.path.join(root, f), src)
            os.makedirs(os.path.dirname(os.path.join(dst, rel)) or dst, exist_ok=True)
            shutil.copy(os.path.join(root, f), os.path.join(dst, rel))
notes = open(os.path.join(src, "notes.md"), errors="replace").read() if os.path.exists(os.path.join(src, "notes.md")) else ""
patch = open(os.path.join(src, "patch.diff")).read()
files = re.findall(r"^\+\+\+ b/(.*)$", patch, re.M)
needs = ""
m = re.search(r"(?is)(needs?[^\n]*manifest.*?)(?:\n#|\n\n\n|\Z)", notes)
if m:
    needs = re.sub(r"\s+", " ", m.group(1))[:900]
meta = {
    "property": prop,
    "origin": "independent sub-agent that was given only the property text and its own scratch worktree (nothing from /verif)",
    "files_touched": files,
    "needs_to_manifest": needs or "see notes.md",
    "demonstration": {"files": sorted(f for f in os.listdir(dst) if f.endswith("_test.go")), "package_dir": demopkg,
                      "how": "copy the demo test into package_dir of a worktree; passes on the unmodified tree, fails with patch.diff applied"},
    "confirmed_by_lead": {"command": "lib/confirm_seed.sh <dir> %s" % demopkg, "result": verdict,
                          "meaning": "patch applies to /repo HEAD, touched packages build, tests of the touched packages that pass without the patch still pass, demo passes without and fails with the patch"},
    "checks_run": {"command": "lib/try_seed.sh patch.diff " + " ".join(checks), "caught": caught, "checks": checks},
}
if os.environ.get("SUMMARY"):
    meta["summary"] = os.environ["SUMMARY"]
json.dump(meta, open(os.path.join(dst, "meta.json"), "w"), indent=1)
print(dst)
