// C30: Tendermint-family light clients need a two-thirds power quorum; deposits need an existence
// proof under a header verified the same way.
//
// The real header_sync / cross_chain_manager contracts are driven through their entrances
// (syncGenesisHeader, syncBlockHeader, ImportOuterTransfer) with synthetic chains whose keys the
// check owns. After every call the stored epoch record is read back and judged by an oracle written
// from the property statement: it may only move to (height, next-valset hash) of a submitted header
// that is higher than the tracked height, whose validator set hashes to the tracked next-validator
// hash and whose commit carries honest precommits of more than 2/3 of the power; it never moves down.
package c30

import (
	"bytes"
	"encoding/hex"
	"fmt"
	"math/rand"
	"testing"

	ethcrypto "github.com/ethereum/go-ethereum/crypto"
	"github.com/polynetwork/poly/native/service/header_sync/cosmos"
	"github.com/polynetwork/poly/native/service/header_sync/okex"
	"github.com/polynetwork/poly/native/service/utils"
	"github.com/tendermint/tendermint/crypto"
	"github.com/tendermint/tendermint/crypto/merkle"

	"verifharness/kit"
	"verifharness/kit/nat"
	"verifharness/kit/pk"
	"verifharness/synth/chains"
	"verifharness/synth/tmsynth"
)

const (
	netID      = 5
	targetID   = 2 // an ETH-router chain deposits are sent to
	chainLabel = "synth-1"
)

type tracked struct {
	H   int64
	NVH []byte
	BH  []byte
}

func (t *tracked) String() string {
	if t == nil {
		return "<none>"
	}
	return fmt.Sprintf("{h=%d nvh=%x}", t.H, t.NVH)
}

// adapter = what differs between the routers of the family.
type adapter struct {
	name     string
	router   uint64
	chainID  uint64
	versions []uint64
	encode   func(b *tmsynth.Built) []byte
	read     func(e *nat.Env, id uint64) *tracked
	newKey   func(rng *rand.Rand) crypto.PrivKey // nil = tendermint ed25519 / secp256k1 mix
	// deposits
	store     string
	others    []string
	ccmc      []byte
	storeKey  func(rng *rand.Rand, ccmc []byte) []byte
	storedVal func(msg []byte) []byte
	proofEnc  func(p *merkle.Proof) []byte
	extraEnc  func(kp string, value []byte) []byte
}

type proofValue struct {
	Kp    string
	Value []byte
}

func cosmosAdapter() *adapter {
	return &adapter{
		name: "cosmos", router: utils.COSMOS_ROUTER, chainID: 40, versions: []uint64{10, 11},
		encode: func(b *tmsynth.Built) []byte {
			return cosmos.Cdc.MustMarshalBinaryBare(cosmos.CosmosHeader{Header: b.Header, Commit: b.Commit, Valsets: b.Valsets})
		},
		read: func(e *nat.Env, id uint64) *tracked {
			info, err := cosmos.GetEpochSwitchInfo(e.Service(), id)
			if err != nil || info == nil {
				return nil
			}
			return &tracked{H: info.Height, NVH: append([]byte{}, info.NextValidatorsHash...), BH: append([]byte{}, info.BlockHash...)}
		},
		store: "ccm", others: []string{"acc", "bank", "staking"},
		storeKey: func(rng *rand.Rand, _ []byte) []byte {
			k := make([]byte, 8+rng.Intn(30))
			rng.Read(k)
			return append([]byte("makeTx/"), k...)
		},
		storedVal: func(msg []byte) []byte { return msg },
		proofEnc:  func(p *merkle.Proof) []byte { return cosmos.Cdc.MustMarshalBinaryBare(*p) },
		extraEnc: func(kp string, value []byte) []byte {
			return cosmos.Cdc.MustMarshalBinaryBare(proofValue{Kp: kp, Value: value})
		},
	}
}

func okexAdapter() *adapter {
	cdc := okex.NewCDC()
	ccmc := bytes.Repeat([]byte{0xC7}, 20)
	return &adapter{
		name: "okex", router: utils.OKEX_ROUTER, chainID: 41, versions: []uint64{10},
		encode: func(b *tmsynth.Built) []byte {
			return cdc.MustMarshalBinaryBare(okex.CosmosHeader{Header: b.Header, Commit: b.Commit, Valsets: b.Valsets})
		},
		read: func(e *nat.Env, id uint64) *tracked {
			info, err := okex.GetEpochSwitchInfo(e.Service(), id)
			if err != nil || info == nil {
				return nil
			}
			return &tracked{H: info.Height, NVH: append([]byte{}, info.NextValidatorsHash...), BH: append([]byte{}, info.BlockHash...)}
		},
		store: "evm", others: []string{"acc", "supply"}, ccmc: ccmc,
		storeKey: func(rng *rand.Rand, ccmc []byte) []byte {
			h := make([]byte, 32)
			rng.Read(h)
			return append(append([]byte{0x05}, ccmc...), h...)
		},
		storedVal: func(msg []byte) []byte { return ethcrypto.Keccak256(msg) },
		proofEnc:  func(p *merkle.Proof) []byte { return cdc.MustMarshalBinaryBare(*p) },
		extraEnc: func(kp string, value []byte) []byte {
			return cdc.MustMarshalBinaryBare(proofValue{Kp: kp, Value: value})
		},
	}
}

// ---------------------------------------------------------------------------------------------
// validator sets and signer patterns

var shapes = []string{"equal", "small", "large", "whale", "exact23", "thirds"}

// newSet makes n validators with the given power shape. For "exact23" the first k validators
// (returned as exact) hold exactly two thirds of the total power.
func newSet(rng *rand.Rand, a *adapter, n int, shape string) (vals []*tmsynth.Val, exact map[*tmsynth.Val]bool) {
	pw := make([]int64, n)
	switch shape {
	case "equal":
		p := int64(1 + rng.Intn(1000))
		for i := range pw {
			pw[i] = p
		}
	case "small":
		for i := range pw {
			pw[i] = int64(1 + rng.Intn(10))
		}
	case "large":
		for i := range pw {
			pw[i] = 1 + rng.Int63n(1<<40)
		}
	case "whale":
		for i := range pw {
			pw[i] = int64(1 + rng.Intn(5))
		}
		pw[rng.Intn(n)] = int64(20 + rng.Intn(1000))
	case "thirds":
		// total divisible by 3, many subsets land exactly on the threshold
		for i := range pw {
			pw[i] = int64(3 * (1 + rng.Intn(4)))
		}
	case "exact23":
		if n < 2 {
			pw[0] = 3
			break
		}
		k := 1 + rng.Intn(n-1) // signers
		var sum int64
		for i := 0; i < k; i++ {
			pw[i] = int64(1 + rng.Intn(50))
			sum += pw[i]
		}
		rest := int64(n - k)
		// need sum == 2*(sum+other)/3  <=>  other == sum/2, with other >= rest (each >= 1)
		for sum%2 != 0 || sum/2 < rest {
			pw[0]++
			sum++
		}
		other := sum / 2
		for i := k; i < n; i++ {
			pw[i] = 1
			other--
		}
		pw[k+rng.Intn(n-k)] += other
		exact = map[*tmsynth.Val]bool{}
		defer func() {
			for i := 0; i < k; i++ {
				exact[vals[i]] = true
			}
		}()
	}
	vals = make([]*tmsynth.Val, n)
	for i := range vals {
		var k crypto.PrivKey
		if a.newKey != nil {
			k = a.newKey(rng)
		} else {
			k = tmsynth.NewKey(rng, rng.Intn(5) == 0)
		}
		vals[i] = &tmsynth.Val{Priv: k, Pub: k.PubKey(), Power: pw[i]}
	}
	return vals, exact
}

// signers picks who signs honestly. mode: all | above (minimal prefix of a random order exceeding
// 2/3) | below (that prefix minus its last member: at most 2/3) | exact (exactly 2/3, when the set
// was built for it; else falls back to below) | none.
func signers(rng *rand.Rand, vals []*tmsynth.Val, exact map[*tmsynth.Val]bool, mode string) map[*tmsynth.Val]bool {
	out := map[*tmsynth.Val]bool{}
	total := tmsynth.Total(vals)
	switch mode {
	case "all":
		for _, v := range vals {
			out[v] = true
		}
	case "none":
	case "exact":
		if exact != nil {
			for v := range exact {
				out[v] = true
			}
			return out
		}
		fallthrough
	case "above", "below":
		perm := rng.Perm(len(vals))
		var sum int64
		var last *tmsynth.Val
		for _, i := range perm {
			out[vals[i]] = true
			last = vals[i]
			sum += vals[i].Power
			if 3*sum > 2*total {
				break
			}
		}
		if mode != "above" && last != nil {
			delete(out, last)
		}
	}
	return out
}

var benign = []tmsynth.SigKind{tmsynth.SigAbsent, tmsynth.SigNil}
var hostile = []tmsynth.SigKind{tmsynth.SigForged, tmsynth.SigWrongHeight, tmsynth.SigWrongBlock, tmsynth.SigWrongChain,
	tmsynth.SigOtherKey, tmsynth.SigNilAsCommit, tmsynth.SigWrongRound}

// kindsFor gives every slot a kind: signers sign honestly, the rest draw from filler.
func kindsFor(rng *rand.Rand, ord []*tmsynth.Val, sg map[*tmsynth.Val]bool, filler []tmsynth.SigKind) []tmsynth.SigKind {
	out := make([]tmsynth.SigKind, len(ord))
	for i, v := range ord {
		if sg[v] {
			out[i] = tmsynth.SigValid
		} else {
			out[i] = filler[rng.Intn(len(filler))]
		}
	}
	return out
}

// ---------------------------------------------------------------------------------------------
// one submitted header and what the oracle knows about it

type hdrCase struct {
	spec       tmsynth.Spec
	b          *tmsynth.Built
	raw        []byte
	validPower int64
	total      int64
	legacyHash []byte
	newHash    []byte
	consistent bool
	desc       string
}

func (a *adapter) build(rng *rand.Rand, s tmsynth.Spec, desc string) *hdrCase {
	s.ChainID = chainLabel
	b := tmsynth.Build(s, rng)
	c := &hdrCase{spec: s, b: b, raw: a.encode(b), total: tmsynth.Total(s.Vals), desc: desc}
	c.consistent = s.CommitHeightDelta == 0 && s.CommitHashOverride == nil
	if c.consistent {
		kinds := s.Kinds
		if s.DropSlots > 0 && kinds == nil {
			kinds = make([]tmsynth.SigKind, len(b.Ordered))
		}
		if s.DropSlots > 0 {
			kinds = append([]tmsynth.SigKind{}, kinds...)
			for i := len(kinds) - s.DropSlots; i < len(kinds); i++ {
				if i >= 0 {
					kinds[i] = tmsynth.SigAbsent
				}
			}
		}
		c.validPower = tmsynth.ValidPower(b.Ordered, kinds)
	}
	c.legacyHash = tmsynth.LegacyHash(s.Vals)
	if a.name == "cosmos" {
		c.newHash = tmsynth.NewHash(s.Vals)
	}
	return c
}

// The three conditions of the property, judged against a tracked state.
func (c *hdrCase) higher(t *tracked) bool { return c.b.Header.Height > t.H }
func (c *hdrCase) valsetOK(t *tracked) bool {
	return bytes.Equal(t.NVH, c.legacyHash) || (c.newHash != nil && bytes.Equal(t.NVH, c.newHash))
}
func (c *hdrCase) quorum() bool { return c.consistent && 3*c.validPower > 2*c.total }
func (c *hdrCase) legit(t *tracked) bool {
	return c.higher(t) && c.valsetOK(t) && c.quorum()
}
func (c *hdrCase) after() *tracked {
	return &tracked{H: c.b.Header.Height, NVH: c.b.Header.NextValidatorsHash}
}

func same(a, b *tracked) bool {
	if a == nil || b == nil {
		return a == b
	}
	return a.H == b.H && bytes.Equal(a.NVH, b.NVH)
}

// judge compares the tracked record before/after one call that submitted the given headers.
// Returns false when a violation was reported.
func judge(r *kit.Run, a *adapter, before, after *tracked, cs []*hdrCase, what string, replay func() interface{}) bool {
	r.Count(a.name+"_observed_calls", 1)
	if before != nil && after == nil {
		viol(r, a.name+":tracked-record-vanished", what, replay())
		return false
	}
	if before == nil {
		return true
	}
	if after.H < before.H {
		viol(r, a.name+":tracked-height-decreased", fmt.Sprintf("%s: tracked %v -> %v", what, before, after), replay())
		return false
	}
	if same(before, after) {
		r.Count(a.name+"_unchanged", 1)
		return true
	}
	r.Count(a.name+"_advanced", 1)
	// states reachable by applying, in order, any justified headers of the call
	reach := []*tracked{before}
	for _, c := range cs {
		var add []*tracked
		for _, t := range reach {
			if c.legit(t) {
				add = append(add, c.after())
			}
		}
		reach = append(reach, add...)
	}
	for _, t := range reach[1:] {
		if same(t, after) {
			return true
		}
	}
	key := a.name + ":advance-not-justified"
	if len(cs) > 1 {
		// the final record must be the end of an in-order chain of justified headers; if a justified
		// chain reaches a HIGHER height than the stored one, the tracked height went down inside the call
		var top int64
		for _, t := range reach[1:] {
			if t.H > top {
				top = t.H
			}
		}
		if top > after.H {
			key = a.name + ":tracked-height-decreased-within-call"
		}
	}
	if len(cs) == 1 {
		c := cs[0]
		switch {
		case !same(c.after(), after):
			key = a.name + ":advance-to-unsubmitted-state"
		case !c.higher(before):
			key = a.name + ":advance-height-not-higher"
		case !c.valsetOK(before):
			key = a.name + ":advance-valset-hash-mismatch"
		case !c.quorum():
			key = a.name + ":advance-without-two-thirds"
			for _, k := range c.spec.Kinds {
				if k == tmsynth.SigCopy {
					key = a.name + ":repeated-validator-signature-counted"
				}
			}
		}
	} else if len(cs) == 0 {
		key = a.name + ":tracked-changed-without-header"
	}
	viol(r, key, fmt.Sprintf("%s: tracked %v -> %v", what, before, after), replay())
	return false
}

func describe(cs []*hdrCase) interface{} {
	var out []interface{}
	for _, c := range cs {
		kinds := []string{}
		for _, k := range c.spec.Kinds {
			kinds = append(kinds, k.String())
		}
		pw := []int64{}
		for _, v := range c.b.Ordered {
			pw = append(pw, v.Power)
		}
		out = append(out, map[string]interface{}{
			"desc": c.desc, "height": c.b.Header.Height, "block_version": c.spec.BlockVersion, "powers_in_slot_order": pw, "slot_kinds": kinds,
			"valid_power": c.validPower, "total_power": c.total, "commit_height_delta": c.spec.CommitHeightDelta,
			"commit_hash_overridden": c.spec.CommitHashOverride != nil, "drop_slots": c.spec.DropSlots,
			"validators_hash": kit.Hex(c.b.Header.ValidatorsHash), "next_validators_hash": kit.Hex(c.b.Header.NextValidatorsHash),
			"valset_legacy_hash": kit.Hex(c.legacyHash), "valset_new_hash": kit.Hex(c.newHash), "header_amino_hex": kit.Hex(c.raw),
		})
	}
	return out
}

func quorumClass(c *hdrCase) string {
	switch {
	case !c.consistent:
		return "inconsistent"
	case 3*c.validPower > 2*c.total:
		return "above"
	case 3*c.validPower == 2*c.total:
		return "exact"
	}
	return "below"
}

// ---------------------------------------------------------------------------------------------

func newEnv(t *testing.T, r *kit.Run, rng *rand.Rand, as ...*adapter) *nat.Env {
	e := nat.New(netID)
	if err := e.InitGovernance(pk.NewKeys(rng, 4)); err != nil {
		t.Fatal(err)
	}
	for _, a := range as {
		if err := chains.Register(e, a.chainID, a.router, a.name, 1, a.ccmc, nil); err != nil {
			t.Fatal(err)
		}
	}
	return e
}

// headerEpisode: one synthetic chain followed through a number of submissions.
func headerEpisode(t *testing.T, r *kit.Run, a *adapter, rng *rand.Rand, maxN, steps int) {
	e := newEnv(t, r, rng, a)
	bv := a.versions[rng.Intn(len(a.versions))]
	shape := shapes[rng.Intn(len(shapes))]
	n := 1 + rng.Intn(maxN)
	cur, exact := newSet(rng, a, n, shape)
	sets := map[string][]*tmsynth.Val{}
	exacts := map[string]map[*tmsynth.Val]bool{}
	remember := func(vs []*tmsynth.Val, ex map[*tmsynth.Val]bool, ver uint64) []byte {
		h := tmsynth.Hash(vs, ver)
		sets[string(h)] = vs
		exacts[string(h)] = ex
		return h
	}
	// genesis: a header (no commit needed) announcing cur as next set
	h0 := int64(1 + rng.Intn(1000))
	gen := a.build(rng, tmsynth.Spec{Height: h0, BlockVersion: bv, Vals: cur, NextHash: remember(cur, exact, bv)}, "genesis")
	op := nat.Operator(e.Validators)
	// a non-operator must not be able to install it
	if rec := chains.SyncGenesis(e, a.chainID, gen.raw, pk.Single(e.Validators[0])); rec.Ok && a.read(e, a.chainID) != nil {
		r.Count(a.name+"_genesis_by_non_operator_accepted", 1)
	}
	rec := chains.SyncGenesis(e, a.chainID, gen.raw, op)
	tr := a.read(e, a.chainID)
	if !rec.Ok || tr == nil || tr.H != h0 {
		r.Inconclusive(fmt.Sprintf("%s genesis not installed: %s", a.name, rec.Err))
		return
	}
	r.Count(a.name+"_genesis_installed", 1)

	for step := 0; step < steps; step++ {
		before := a.read(e, a.chainID)
		cur = sets[string(before.NVH)]
		exact = exacts[string(before.NVH)]
		if cur == nil {
			r.Inconclusive("lost track of the trusted set")
			return
		}
		nextN := 1 + rng.Intn(maxN)
		nextShape := shapes[rng.Intn(len(shapes))]
		next, nextExact := newSet(rng, a, nextN, nextShape)
		if rng.Intn(4) == 0 && len(cur) > 1 { // small change: same members, one power changed
			next = nil
			for _, v := range cur {
				c := *v
				next = append(next, &c)
			}
			next[rng.Intn(len(next))].Power += int64(1 + rng.Intn(3))
			nextExact = nil
		}
		nbv := bv
		if a.name == "cosmos" && bv == 10 && rng.Intn(8) == 0 {
			nbv = 11 // the chain upgrades: this header still announces the next set in the legacy format
		}
		nextHash := remember(next, nextExact, bv)
		if nbv != bv {
			// also remember it under the new-format hash so later lookups by either hash work
			sets[string(tmsynth.Hash(next, nbv))] = next
			exacts[string(tmsynth.Hash(next, nbv))] = nextExact
		}
		up := int64(1 + rng.Intn(5))
		base := tmsynth.Spec{Height: before.H + up, BlockVersion: bv, Vals: cur, NextHash: nextHash, Salt: byte(step)}
		var cs []*hdrCase
		opk := rng.Intn(13)
		opName := ""
		switch opk {
		case 0, 1: // honest advance: minimal quorum or everybody, the rest absent / nil
			mode := []string{"above", "all"}[rng.Intn(2)]
			s := base
			s.Kinds = kindsFor(rng, tmsynth.Order(cur, bv), signers(rng, cur, exact, mode), benign)
			cs = append(cs, a.build(rng, s, "honest-"+mode))
			opName = "honest"
		case 2, 3: // at most two thirds sign; the rest absent / nil
			mode := []string{"below", "exact", "exact", "none"}[rng.Intn(4)]
			s := base
			s.Kinds = kindsFor(rng, tmsynth.Order(cur, bv), signers(rng, cur, exact, mode), benign)
			cs = append(cs, a.build(rng, s, "short-"+mode))
			opName = "short"
		case 4: // at most two thirds sign honestly, the rest is made up
			mode := []string{"below", "exact", "none"}[rng.Intn(3)]
			s := base
			s.Kinds = kindsFor(rng, tmsynth.Order(cur, bv), signers(rng, cur, exact, mode), hostile)
			cs = append(cs, a.build(rng, s, "short+hostile-"+mode))
			opName = "short-hostile"
		case 12: // at most two thirds sign; every other slot repeats the complete CommitSig of a signer
			mode := []string{"below", "exact", "one"}[rng.Intn(3)]
			sg := signers(rng, cur, exact, mode)
			if mode == "one" || len(sg) == 0 { // a single validator (not holding 2/3 alone) in every slot
				sg = map[*tmsynth.Val]bool{}
				v := cur[rng.Intn(len(cur))]
				if 3*v.Power <= 2*tmsynth.Total(cur) {
					sg[v] = true
				}
			}
			s := base
			ordv := tmsynth.Order(cur, bv)
			s.Kinds = kindsFor(rng, ordv, sg, []tmsynth.SigKind{tmsynth.SigCopy})
			var srcs []int
			for i, v := range ordv {
				if sg[v] {
					srcs = append(srcs, i)
				}
			}
			if len(srcs) > 0 {
				s.CopyFrom = make([]int, len(ordv))
				for i := range s.CopyFrom {
					s.CopyFrom[i] = srcs[rng.Intn(len(srcs))]
				}
			}
			cs = append(cs, a.build(rng, s, "short+copies-"+mode))
			opName = "short-copies"
		case 5: // enough honest signers but one made-up slot besides (poly may refuse; never required to accept)
			s := base
			s.Kinds = kindsFor(rng, tmsynth.Order(cur, bv), signers(rng, cur, exact, "above"), append(append([]tmsynth.SigKind{}, benign...), hostile...))
			cs = append(cs, a.build(rng, s, "quorum+noise"))
			opName = "quorum-noise"
		case 6: // another validator set, fully signed by itself
			other, _ := newSet(rng, a, 1+rng.Intn(maxN), shapes[rng.Intn(len(shapes))])
			if rng.Intn(2) == 0 && len(cur) > 0 { // trusted members, one power altered
				other = nil
				for _, v := range cur {
					c := *v
					other = append(other, &c)
				}
				other[rng.Intn(len(other))].Power++
			}
			s := base
			s.Vals = other
			cs = append(cs, a.build(rng, s, "foreign-valset"))
			opName = "foreign-valset"
		case 7: // not higher than tracked, otherwise perfect
			s := base
			s.Height = before.H - int64(rng.Intn(3))
			if s.Height < 1 {
				s.Height = 1
			}
			cs = append(cs, a.build(rng, s, "not-higher"))
			opName = "not-higher"
		case 8: // commit does not belong to the header
			s := base
			switch rng.Intn(4) {
			case 0:
				s.CommitHeightDelta = 1
			case 1:
				s.CommitHeightDelta = -1
			case 2:
				s.CommitHashOverride = bytes.Repeat([]byte{0xAB}, 32)
			case 3:
				s.DropSlots = 1
				s.Kinds = kindsFor(rng, tmsynth.Order(cur, bv), signers(rng, cur, exact, "all"), benign)
			}
			cs = append(cs, a.build(rng, s, "commit-mismatch"))
			opName = "commit-mismatch"
		case 9: // several headers in one call: an honest chain, optionally with a bad link
			// Order of the heights inside the call: ascending (what relayers send), descending
			// (every later link chains onto the previous one's next set but sits LOWER, still above
			// the stored height) or arbitrary (equal heights included).
			k := 2 + rng.Intn(2)
			order := rng.Intn(3)
			badAt := -1
			if rng.Intn(2+2*order) == 0 {
				badAt = rng.Intn(k)
			}
			heights := make([]int64, k)
			hh := before.H
			for i := range heights {
				hh += int64(1 + rng.Intn(3))
				heights[i] = hh
			}
			switch order {
			case 1:
				for i, j := 0, k-1; i < j; i, j = i+1, j-1 {
					heights[i], heights[j] = heights[j], heights[i]
				}
			case 2:
				for i := range heights {
					heights[i] = before.H + int64(1+rng.Intn(6))
				}
			}
			vs, ex := cur, exact
			for i := 0; i < k; i++ {
				nx, nxEx := newSet(rng, a, 1+rng.Intn(maxN), shapes[rng.Intn(len(shapes))])
				h := heights[i]
				s := tmsynth.Spec{Height: h, BlockVersion: bv, Vals: vs, NextHash: remember(nx, nxEx, bv), Salt: byte(step)}
				mode := "above"
				if i == badAt {
					mode = []string{"below", "exact", "none"}[rng.Intn(3)]
				}
				s.Kinds = kindsFor(rng, tmsynth.Order(vs, bv), signers(rng, vs, ex, mode), benign)
				cs = append(cs, a.build(rng, s, fmt.Sprintf("multi-%d-%s", i, mode)))
				vs, ex = nx, nxEx
			}
			opName = []string{"multi", "multi-descending", "multi-unordered"}[order]
		case 10: // no validator change announced (never useful to the light client)
			s := base
			s.NextHash = tmsynth.Hash(cur, bv)
			cs = append(cs, a.build(rng, s, "no-change"))
			opName = "no-change"
		case 11: // a second genesis, lower than the tracked height, signed by the operator
			s := base
			s.Height = before.H - int64(1+rng.Intn(3))
			if s.Height < 1 {
				s.Height = 1
			}
			g := a.build(rng, s, "second-genesis")
			rec := chains.SyncGenesis(e, a.chainID, g.raw, op)
			after := a.read(e, a.chainID)
			r.Eval(1)
			r.Distinct(a.name, "second-genesis", rec.Ok, same(before, after))
			if rec.Ok {
				r.Count(a.name+"_second_genesis_ok", 1)
			} else {
				r.Count(a.name+"_second_genesis_refused", 1)
			}
			if !judge(r, a, before, after, nil, "second syncGenesisHeader", func() interface{} { return describe([]*hdrCase{g}) }) {
				return
			}
			continue
		}
		raws := [][]byte{}
		for _, c := range cs {
			raws = append(raws, c.raw)
		}
		rec := chains.SyncHeaders(e, a.chainID, raws)
		after := a.read(e, a.chainID)
		r.Eval(1)
		c0 := cs[0]
		r.Distinct(a.name, bv, len(cur), shape, opName, c0.desc, quorumClass(c0), fmt.Sprint(c0.spec.Kinds), rec.Ok, same(before, after))
		if rec.Panic != nil {
			r.Count(a.name+"_panics", 1)
		}
		if rec.Ok {
			r.Count(a.name+"_calls_ok", 1)
		} else {
			r.Count(a.name+"_calls_refused", 1)
		}
		r.Count(a.name+"_op_"+opName, 1)
		r.Count(a.name+"_quorum_"+quorumClass(c0), 1)
		for _, c := range cs {
			for _, k := range c.spec.Kinds {
				if k == tmsynth.SigCopy && c.validPower > 0 {
					r.Count(a.name+"_copied_commit_sigs_submitted", 1)
				}
			}
		}
		what := fmt.Sprintf("syncBlockHeader(%s) ok=%v err=%q", opName, rec.Ok, rec.Err)
		if !judge(r, a, before, after, cs, what, func() interface{} {
			return map[string]interface{}{"router": a.name, "before": before.String(), "after": after.String(), "headers": describe(cs)}
		}) {
			return
		}
		if opName == "honest" {
			if same(before, after) {
				r.Count(a.name+"_honest_refused", 1)
				if r.Get(a.name+"_honest_refused") <= 2 {
					fmt.Printf("note: honest %s header refused: %s\n", a.name, rec.Err)
				}
			} else {
				r.Count(a.name+"_honest_advanced", 1)
				if r.Get(a.name+"_honest_advanced") == 1 {
					r.Sample(map[string]interface{}{"router": a.name, "case": "honest advance", "before": before.String(), "after": after.String(), "headers": describeShort(cs)})
				}
			}
		}
		if !same(before, after) && nbv != bv && len(cs) == 1 {
			bv = nbv
			r.Count(a.name+"_upgrades_to_v11", 1)
		}
		if same(before, after) && (opName == "short" || opName == "short-hostile" || opName == "short-copies") && quorumClass(c0) == "exact" {
			r.Count(a.name+"_exact_two_thirds_refused", 1)
			if r.Get(a.name+"_exact_two_thirds_refused") == 1 {
				r.Sample(map[string]interface{}{"router": a.name, "case": "exactly 2/3 refused", "err": rec.Err, "headers": describeShort(cs)})
			}
		}
		shape = nextShape
	}
}

func min1(n int) int {
	if n > 1 {
		return 1
	}
	return n
}

func describeShort(cs []*hdrCase) interface{} {
	var out []interface{}
	for _, c := range cs {
		pw := []int64{}
		for _, v := range c.b.Ordered {
			pw = append(pw, v.Power)
		}
		out = append(out, map[string]interface{}{"desc": c.desc, "height": c.b.Header.Height, "block_version": c.spec.BlockVersion,
			"powers": pw, "kinds": fmt.Sprint(c.spec.Kinds), "valid_power": c.validPower, "total_power": c.total})
	}
	return out
}

// ---------------------------------------------------------------------------------------------
// deposits

// forgedAbsentMessage builds a cross-chain message whose serialisation reads "/<store>/<K>" so that
// it doubles as a key path; K is returned. The message starts with the var-bytes length 0x2f ('/').
func forgedAbsentMessage(rng *rand.Rand, store string, tag int) (value, key []byte) {
	txHash := make([]byte, 47)
	copy(txHash, store+"/")
	for i := len(store) + 1; i < 47; i++ {
		txHash[i] = byte('A' + rng.Intn(26))
	}
	value = chains.MakeTxParam(txHash, []byte(fmt.Sprintf("forged-ccid-%d", tag)), []byte("from-contract"), targetID,
		[]byte("to-contract-of-attacker"), "unlock", []byte("pay-the-attacker"))
	return value, value[1+len(store)+1:]
}

func honestMessage(rng *rand.Rand, tag string) []byte {
	th := make([]byte, 32)
	rng.Read(th)
	args := make([]byte, 10+rng.Intn(60))
	rng.Read(args)
	return chains.MakeTxParam(th, []byte("ccid-"+tag), []byte("lock-proxy"), targetID, []byte("target-proxy"), "unlock", args)
}

func depositEpisode(t *testing.T, r *kit.Run, a *adapter, rng *rand.Rand, maxN, cases int, ep int) {
	target := &adapter{name: "target", router: utils.ETH_ROUTER, chainID: targetID, ccmc: bytes.Repeat([]byte{0x11}, 20)}
	e := newEnv(t, r, rng, a, target)
	bv := a.versions[rng.Intn(len(a.versions))]
	n := 1 + rng.Intn(maxN)
	vals, exact := newSet(rng, a, n, shapes[rng.Intn(len(shapes))])
	vh := tmsynth.Hash(vals, bv)
	h0 := int64(1 + rng.Intn(1000))
	gen := a.build(rng, tmsynth.Spec{Height: h0, BlockVersion: bv, Vals: vals, NextHash: vh}, "genesis")
	if rec := chains.SyncGenesis(e, a.chainID, gen.raw, nat.Operator(e.Validators)); !rec.Ok {
		r.Inconclusive("deposit genesis: " + rec.Err)
		return
	}
	// the source chain's application state: three committed versions
	st := tmsynth.NewStore(a.store, a.others...)
	type entry struct{ k, msg []byte }
	var entries []entry
	for i := 0; i < 6; i++ {
		en := entry{a.storeKey(rng, a.ccmc), honestMessage(rng, fmt.Sprintf("%d-%d", ep, i))}
		entries = append(entries, en)
		st.Set(en.k, a.storedVal(en.msg))
	}
	for _, o := range a.others {
		st.SetIn(o, []byte("k"), []byte("v"))
	}
	v1 := st.Commit()
	// v2: two entries removed, two new ones
	st.Delete(entries[0].k)
	st.Delete(entries[1].k)
	for i := 6; i < 8; i++ {
		en := entry{a.storeKey(rng, a.ccmc), honestMessage(rng, fmt.Sprintf("%d-%d", ep, i))}
		entries = append(entries, en)
		st.Set(en.k, a.storedVal(en.msg))
	}
	v2 := st.Commit()
	vers := []*tmsynth.Version{v1, v2}
	// a second application state of the same chain committed ICS-23 style ("ics23:simple" ops): the
	// cosmos router registers commitment-op decoders besides the legacy iavl / multistore ops
	var ics *tmsynth.IcsState
	var icsKeys [][]byte
	if a.name == "cosmos" {
		kv := map[string][]byte{}
		for i := 0; i < 3+rng.Intn(4); i++ {
			k := []byte(fmt.Sprintf("ics/%02d-%x", 2*i, rng.Uint32()))
			kv[string(k)] = honestMessage(rng, fmt.Sprintf("ics-%d-%d", ep, i))
			icsKeys = append(icsKeys, k)
		}
		ics = tmsynth.NewIcsState(a.store, kv, a.others...)
		vers = append(vers, ics.AsVersion())
	}
	msgIn := func(v *tmsynth.Version, msg []byte) bool { return v.HasValue(a.storedVal(msg)) }
	height := h0
	done := map[string]bool{} // messages already imported once (a second import is a replay, refused by design)
	for ci := 0; ci < cases; ci++ {
		before := a.read(e, a.chainID)
		height += int64(1 + rng.Intn(3))
		ver := vers[rng.Intn(2)]
		// entries present in ver
		var present []entry
		for _, en := range entries {
			if _, ok := ver.KV[string(en.k)]; ok {
				present = append(present, en)
			}
		}
		en := present[rng.Intn(len(present))]
		mode := "above"
		filler := benign
		hv := vals
		foreign := false
		appHash := ver.AppHash
		kind := []string{"honest", "honest", "wrong-value", "wrong-keypath", "other-apphash", "unverified-header", "absence-empty-kp", "absence-empty-kp",
			"absence-with-kp", "existence-empty-kp", "random-apphash", "proof-of-other-key",
			"ics23-honest", "ics23-wrong-value", "ics23-absence-forged-value", "ics23-absence-forged-value", "ics23-absence-empty-kp"}[rng.Intn(12+5*len(icsKeys[:min1(len(icsKeys))]))]
		var icsProof *merkle.Proof
		icsAbsent := false
		proofKey := en.k
		value := en.msg
		kp := st.KeyPath(proofKey)
		if rng.Intn(3) == 0 && a.name == "cosmos" {
			kp = tmsynth.KeyPath(a.store, proofKey, false)
		}
		switch kind {
		case "ics23-honest", "ics23-wrong-value":
			k := icsKeys[rng.Intn(len(icsKeys))]
			proofKey, value, appHash = k, ics.KV[string(k)], ics.AppHash
			kp = tmsynth.KeyPath(a.store, k, rng.Intn(2) == 0)
			icsProof = ics.ProveExist(k)
			if kind == "ics23-wrong-value" {
				value = honestMessage(rng, fmt.Sprintf("icswv-%d-%d", ep, ci))
			}
		case "ics23-absence-forged-value", "ics23-absence-empty-kp":
			// a genuinely valid NON-existence proof of some absent key (before / between / after the
			// committed keys), submitted as if it proved the forged message
			var k []byte
			switch rng.Intn(3) {
			case 0:
				k = []byte("ics/")
			case 1:
				k = append(append([]byte{}, icsKeys[rng.Intn(len(icsKeys))]...), 'x')
			default:
				k = []byte("ics/zzzz")
			}
			p, err := ics.ProveAbsent(k)
			if err != nil {
				r.Count("cosmos_ics23_absence_proof_not_buildable", 1)
				continue
			}
			icsProof, icsAbsent = p, true
			proofKey, appHash = k, ics.AppHash
			value = honestMessage(rng, fmt.Sprintf("icsforged-%d-%d", ep, ci))
			kp = tmsynth.KeyPath(a.store, k, rng.Intn(2) == 0)
			if kind == "ics23-absence-empty-kp" {
				kp = ""
			}
		case "wrong-value":
			value = honestMessage(rng, fmt.Sprintf("wv-%d-%d", ep, ci))
		case "wrong-keypath":
			if rng.Intn(2) == 0 {
				kp = st.KeyPath(present[(rng.Intn(len(present)-1)+1)%len(present)].k)
				if kp == st.KeyPath(proofKey) {
					kp = tmsynth.KeyPath(a.others[0], proofKey, true)
				}
			} else {
				kp = tmsynth.KeyPath(a.others[0], proofKey, true)
			}
		case "other-apphash":
			// the other version, and pick an entry that is NOT in it
			otherV := v1
			if ver == v1 {
				otherV = v2
			}
			found := false
			for _, c := range present {
				if _, ok := otherV.KV[string(c.k)]; !ok {
					en, found = c, true
					break
				}
			}
			if !found {
				continue
			}
			proofKey, value, kp = en.k, en.msg, st.KeyPath(en.k)
			appHash = otherV.AppHash
		case "random-apphash":
			appHash = make([]byte, 32)
			rng.Read(appHash)
		case "unverified-header":
			switch rng.Intn(5) {
			case 0:
				mode = "below"
			case 1:
				mode = "exact"
			case 2:
				mode, filler = "below", hostile
			case 3:
				hv, _ = newSet(rng, a, 1+rng.Intn(maxN), shapes[rng.Intn(len(shapes))])
				foreign = true
			case 4:
				mode, filler = "below", []tmsynth.SigKind{tmsynth.SigCopy} // a signer's CommitSig repeated in the other slots
			}
		case "absence-empty-kp", "absence-with-kp":
			value, proofKey = forgedAbsentMessage(rng, a.store, ep*1000+ci)
			if kind == "absence-empty-kp" {
				kp = ""
			} else {
				kp = st.KeyPath(proofKey)
			}
		case "existence-empty-kp":
			kp = ""
		case "proof-of-other-key":
			o := present[(rng.Intn(len(present)-1)+1)%len(present)]
			if bytes.Equal(o.k, en.k) {
				continue
			}
			proofKey = o.k // proof (and key path) of another, existing entry; value of this one
			kp = st.KeyPath(o.k)
		}
		if kind == "honest" && done[string(value)] {
			kind = "honest-replay"
		}
		var ex map[*tmsynth.Val]bool
		if !foreign {
			ex = exact
		}
		s := tmsynth.Spec{Height: height, BlockVersion: bv, Vals: hv, NextHash: tmsynth.Hash(hv, bv), AppHash: appHash, Salt: byte(ci)}
		s.Kinds = kindsFor(rng, tmsynth.Order(hv, bv), signers(rng, hv, ex, mode), filler)
		hc := a.build(rng, s, "deposit-header-"+mode)
		var proof *merkle.Proof
		var pv []byte
		if icsProof != nil {
			proof = icsProof
			if !icsAbsent {
				pv = ics.KV[string(proofKey)]
			}
		} else {
			proof, pv = st.Prove(ver.Ver, proofKey)
		}
		rec := chains.Import(e, a.chainID, uint32(height), a.proofEnc(proof), a.extraEnc(kp, value), hc.raw)
		after := a.read(e, a.chainID)
		r.Eval(1)
		r.Distinct(a.name, "deposit", bv, kind, mode, quorumClass(hc), pv == nil, kp == "", rec.Ok)
		r.Count(a.name+"_deposit_"+kind, 1)
		replay := func() interface{} {
			return map[string]interface{}{"router": a.name, "kind": kind, "tracked": before.String(), "import_height": height,
				"key_path": kp, "value_hex": kit.Hex(value), "value_as_string": string(value), "proof_is_absence_proof": pv == nil,
				"proof_key_hex": kit.Hex(proofKey), "proof_amino_hex": kit.Hex(a.proofEnc(proof)), "extra_amino_hex": kit.Hex(a.extraEnc(kp, value)),
				"header_app_hash": kit.Hex(appHash), "store_versions": []string{kit.Hex(v1.AppHash), kit.Hex(v2.AppHash)},
				"header": describe([]*hdrCase{hc}), "result_ok": rec.Ok, "result_err": rec.Err}
		}
		if !judge(r, a, before, after, []*hdrCase{hc}, "ImportOuterTransfer("+kind+")", replay) {
			return
		}
		if !rec.Ok {
			r.Count(a.name+"_deposit_refused", 1)
			if kind == "honest" {
				r.Count(a.name+"_deposit_honest_refused", 1)
				if r.Get(a.name+"_deposit_honest_refused") <= 2 {
					fmt.Printf("note: honest %s deposit refused: %s\n", a.name, rec.Err)
				}
			}
			continue
		}
		r.Count(a.name+"_deposit_accepted", 1)
		done[string(value)] = true
		if kind == "ics23-honest" {
			r.Count(a.name+"_ics23_honest_accepted", 1)
		}
		if kind == "honest" {
			r.Count(a.name+"_deposit_honest_accepted", 1)
			if r.Get(a.name+"_deposit_honest_accepted") == 1 {
				r.Sample(map[string]interface{}{"router": a.name, "case": "honest deposit accepted", "key_path": kp, "value_hex": kit.Hex(value)})
			}
		}
		// accepted: the header must have been verifiable and the message must exist in the state it commits
		hdrOK := hc.valsetOK(before) && hc.quorum()
		exists := false
		for _, v := range vers {
			if bytes.Equal(v.AppHash, appHash) && msgIn(v, value) {
				exists = true
			}
		}
		switch {
		case !hdrOK:
			viol(r, a.name+":deposit-accepted-under-unverified-header",
				fmt.Sprintf("deposit kind=%s accepted although the header is not verifiable against the tracked set (valset ok=%v, valid power %d of %d)", kind, hc.valsetOK(before), hc.validPower, hc.total), replay())
		case !exists && icsAbsent:
			viol(r, a.name+":ics23-absence-proof-accepted-as-deposit",
				fmt.Sprintf("ImportOuterTransfer accepted a forged message backed only by a valid ics23 NON-existence proof of key %q (key path %q) under an honestly verified header", proofKey, kp), replay())
		case !exists && kp == "" && pv == nil:
			viol(r, a.name+":absence-proof-accepted-as-deposit",
				fmt.Sprintf("ImportOuterTransfer accepted a message that is NOT in the committed state: empty key path + absence proof of key path string(Value)=%q under an honestly verified header", string(value[:40])+"…"), replay())
		case !exists:
			viol(r, a.name+":deposit-accepted-without-existence",
				fmt.Sprintf("deposit kind=%s accepted but the message is not a value of the state committed by the header", kind), replay())
		}
	}
}

func TestC30(t *testing.T) {
	r := kit.Start(t, "C30", "exploration")
	defer r.Finish()
	r.Rule("per router: episodes = a synthetic chain (block version, N validators, power shape) followed through submissions of kinds {honest minimal/all quorum, at most 2/3 (just below / exactly) with absent+nil fillers, same with forged/wrong-height/wrong-block/wrong-chain/foreign-key/nil-as-commit fillers, same with the complete CommitSig of a signer repeated in the other slots, quorum+noise, foreign validator set, not-higher height, commit/header mismatch, multi-header calls (heights ascending / descending / arbitrary within the call), no-change, second genesis}; deposits = {honest existence, wrong value, wrong key path, other/random app hash, unverifiable header, absence proof with empty / non-empty key path, existence proof with empty key path, proof of another key, ics23 commitment-op proofs (cosmos): existence with right / wrong value, valid non-existence proof with a forged value and with empty key path}; distinct = (router, version, N, shape, kind, slot-kind vector, quorum class, outcome)")
	r.Assume("tendermint v0.33.7 / switcheo tendermint v0.34.14 (hashes, sign-bytes, key types), cosmos-sdk v0.39.1 rootmulti + iavl v0.14.0 (app hashes, proofs) are the reference producers of honest data")
	r.Assume("'valid signature' is judged by construction: a slot counts iff the check itself signed the canonical precommit (chain id, commit height = header height, round, block id = header hash) with the validator's own key")
	r.Assume("'validator set hashes to the trusted next-validator hash' accepts either the amino-era or the protobuf-era hash of the submitted set (weaker reading, covers the chain-upgrade block)")
	r.Assume("a call with several headers may advance through any in-order subsequence of justified headers; headers poly refuses although justified (e.g. one bad extra signature) are not violations")
	r.Assume("the header's own ValidatorsHash field and its chain id are not constrained by the property and are not judged")

	cos := cosmosAdapter()
	okx := okexAdapter()
	maxN := r.N(10, 40)
	// --- header sync
	for _, x := range []struct {
		a        *adapter
		episodes int
		steps    int
	}{{cos, r.N(60, 900), r.N(22, 40)}, {okx, r.N(32, 300), r.N(20, 40)}} {
		for ep := 0; ep < x.episodes; ep++ {
			rng := r.Rand(fmt.Sprintf("%s-hdr-%d", x.a.name, ep))
			mn := maxN
			if ep%3 != 0 && mn > 10 {
				mn = 10 // most episodes small, every third up to 40
			}
			headerEpisode(t, r, x.a, rng, mn, x.steps)
			if r.Violations() > 8 {
				break
			}
		}
	}
	// --- heimdall (tier B: fork-specific types, single-header calls)
	for ep := 0; ep < r.N(12, 250); ep++ {
		heimdallEpisode(t, r, r.Rand(fmt.Sprintf("heimdall-%d", ep)), r.N(8, 20), r.N(16, 30))
		if r.Violations() > 8 {
			break
		}
	}
	// --- deposits
	for _, x := range []struct {
		a        *adapter
		episodes int
		cases    int
	}{{cos, r.N(14, 200), r.N(24, 40)}, {okx, r.N(5, 80), r.N(20, 40)}} {
		for ep := 0; ep < x.episodes; ep++ {
			rng := r.Rand(fmt.Sprintf("%s-dep-%d", x.a.name, ep))
			mn := maxN
			if mn > 12 {
				mn = 12
			}
			depositEpisode(t, r, x.a, rng, mn, x.cases, ep)
		}
	}
	r.Set("routers_covered", []string{"cosmos (block versions 10, 11, upgrade 10->11; header sync + deposits)", "okex (header sync + deposits)", "polygon heimdall (header sync only)"})
	r.Set("routers_uncovered", []string{"heimdall span proofs (VerifySpan) are reached only through the bor router and are not exercised"})
	r.Require("heimdall_honest_advanced", r.N(10, 100))
	r.Require("heimdall_op_multi-descending", r.N(5, 60))
	r.Require("heimdall_multi_advanced", r.N(5, 60))
	r.Require("heimdall_unchanged", r.N(30, 300))
	for _, a := range []*adapter{cos, okx} {
		r.Require(a.name+"_honest_advanced", r.N(20, 200))
		r.Require(a.name+"_calls_refused", r.N(20, 200))
		r.Require(a.name+"_exact_two_thirds_refused", r.N(3, 30))
		r.Require(a.name+"_op_not-higher", 3)
		r.Require(a.name+"_op_multi-descending", 3)
		r.Require(a.name+"_op_short-copies", 3)
		r.Require(a.name+"_copied_commit_sigs_submitted", 3)
		r.Require(a.name+"_op_foreign-valset", 3)
		r.Require(a.name+"_deposit_honest_accepted", r.N(3, 30))
		r.Require(a.name+"_deposit_refused", r.N(10, 100))
	}
	r.Require("cosmos_deposit_absence-empty-kp", 5)
	r.Require("cosmos_deposit_ics23-absence-forged-value", r.N(5, 50))
	r.Require("cosmos_ics23_honest_accepted", r.N(3, 30))
	_ = hex.EncodeToString
}
