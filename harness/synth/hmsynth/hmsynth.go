// Package hmsynth builds Polygon Heimdall (peppermint, a tendermint 0.32 fork) light-client data
// with generated secp256k1 keys. The wire types exist only inside poly
// (native/service/header_sync/polygon/types), so they are used here to ENCODE honest data; any
// verdict about a built header must stay construction-based (see checks/c30/heimdall_test.go,
// which carries its own copy of this builder together with the oracle).
package hmsynth

import (
	"bytes"
	"math/rand"
	"time"

	ethcrypto "github.com/ethereum/go-ethereum/crypto"
	"github.com/polynetwork/poly/native/service/header_sync/polygon"
	ptypes "github.com/polynetwork/poly/native/service/header_sync/polygon/types"
	psecp "github.com/polynetwork/poly/native/service/header_sync/polygon/types/secp256k1"
	"github.com/tendermint/tendermint/version"
)

// Val is one validator.
type Val struct {
	Priv  psecp.PrivKeySecp256k1
	Val   *ptypes.Validator
	Power int64
}

// NewVals makes validators with the given powers.
func NewVals(rng *rand.Rand, powers []int64) []*Val {
	out := make([]*Val, len(powers))
	for i := range out {
		var p psecp.PrivKeySecp256k1
		for {
			rng.Read(p[:])
			if _, err := ethcrypto.ToECDSA(p[:]); err == nil {
				break
			}
		}
		out[i] = &Val{Priv: p, Power: powers[i], Val: ptypes.NewValidator(p.PubKey(), powers[i])}
	}
	return out
}

// Set is the validator set (sorted by address).
func Set(vs []*Val) *ptypes.ValidatorSet {
	l := make([]*ptypes.Validator, len(vs))
	for i, v := range vs {
		l[i] = v.Val.Copy()
	}
	return ptypes.NewValidatorSet(l)
}

// Hash is the validator-set hash.
func Hash(vs []*Val) []byte { return Set(vs).Hash() }

// Order returns vs in index order of the set.
func Order(vs []*Val) []*Val {
	by := map[string]*Val{}
	for _, v := range vs {
		by[string(v.Val.Address)] = v
	}
	var out []*Val
	for _, tv := range Set(vs).Validators {
		out = append(out, by[string(tv.Address)])
	}
	return out
}

// Build makes the amino bytes of a header at height signed (honest precommits for the block) by
// the validators whose index-order position is in signers; the other slots are absent.
func Build(chainID string, height int64, vs []*Val, nextHash []byte, signers map[int]bool) []byte {
	ord := Order(vs)
	set := Set(vs)
	h := ptypes.Header{
		Version: version.Consensus{Block: 10}, ChainID: chainID, Height: height, Time: time.Unix(1600000000+height*5, 0).UTC(),
		NumTxs: 1, TotalTxs: height,
		LastBlockID:    ptypes.BlockID{Hash: bytes.Repeat([]byte{1}, 32), PartsHeader: ptypes.PartSetHeader{Total: 1, Hash: bytes.Repeat([]byte{2}, 32)}},
		LastCommitHash: bytes.Repeat([]byte{3}, 32), DataHash: bytes.Repeat([]byte{4}, 32),
		ValidatorsHash: set.Hash(), NextValidatorsHash: nextHash, ConsensusHash: bytes.Repeat([]byte{5}, 32),
		AppHash: bytes.Repeat([]byte{6}, 32), LastResultsHash: bytes.Repeat([]byte{7}, 32), EvidenceHash: bytes.Repeat([]byte{8}, 32),
		ProposerAddress: ord[0].Val.Address,
	}
	bid := ptypes.BlockID{Hash: h.Hash(), PartsHeader: ptypes.PartSetHeader{Total: 1, Hash: bytes.Repeat([]byte{9}, 32)}}
	pre := make([]*ptypes.CommitSig, len(ord))
	for i := range ord {
		if !signers[i] {
			continue
		}
		v := &ptypes.Vote{Type: ptypes.PrecommitType, Height: height, Round: 0, BlockID: bid, Timestamp: h.Time.Add(time.Duration(i+1) * time.Millisecond),
			ValidatorAddress: ord[i].Val.Address, ValidatorIndex: i}
		sig, err := ord[i].Priv.Sign(v.SignBytes(chainID))
		if err != nil {
			panic(err)
		}
		v.Signature = sig[:64]
		cs := ptypes.CommitSig(*v)
		pre[i] = &cs
	}
	var vl []*ptypes.Validator
	for _, v := range ord {
		vl = append(vl, v.Val.Copy())
	}
	return ptypes.NewCDC().MustMarshalBinaryBare(polygon.CosmosHeader{Header: h, Commit: &ptypes.Commit{BlockID: bid, Precommits: pre}, Valsets: vl})
}
