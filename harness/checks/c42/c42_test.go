// C42: quorum thresholds guarantee intersection.
//
// Runtime part: the thresholds the node USES are observed by boundary-probing the real functions:
//   - ledger verifyHeader (both rules, header path and block path): a canonical header signed by
//     exactly T distinct validators is accepted and one signed by T-1 is refused;
//   - node_manager.CheckConsensusSigns, consensus_vote.CheckVotes, signature_manager.CheckSigns:
//     fed one distinct consensus peer after the other they answer true exactly at the T-th.
//
// T is the formula of the property (N - floor((N-1)/3); ceil(2N/3)). Arithmetic part: for every
// N = 1..10000 the checker evaluates the intersection inequalities 2(N-f)-N > f and
// 2*ceil(2N/3)-N > f. The evidence states which N were probed on real code.
package c42

import (
	"fmt"
	"os"
	"sync"
	"testing"

	"verifharness/checks/c14/sigkit"
	"verifharness/kit"
	"verifharness/kit/nat"
	"verifharness/kit/pk"

	"github.com/polynetwork/poly/common"
	"github.com/polynetwork/poly/common/config"
	"github.com/polynetwork/poly/core/store/ledgerstore"
	"github.com/polynetwork/poly/core/types"
	"github.com/polynetwork/poly/consensus/vbft"
	"github.com/polynetwork/poly/native"
	"github.com/polynetwork/poly/native/service/cross_chain_manager/consensus_vote"
	"github.com/polynetwork/poly/native/service/governance/node_manager"
	"github.com/polynetwork/poly/native/service/governance/signature_manager"
)

func blockThreshold(n int) int { return n - (n-1)/3 }

// ceil(2N/3) without the node's expression
func govThreshold(n int) int {
	t := 2 * n / 3
	if (2*n)%3 != 0 {
		t++
	}
	return t
}

func TestC42(t *testing.T) {
	r := kit.Start(t, "C42", "exploration")
	defer r.Finish()
	r.Rule("boundary probing of the real threshold users for every N in the probed range (accept at exactly the formula value, refuse one below): ledger verifyHeader N=1..24 quick / 1..40 thorough x {new rule, legacy rule} x {header path, block path}, and the bookkeeper rule of non-vbft chains (header path; 1, a random count below and one below the formula refused, the formula value accepted); CheckConsensusSigns / CheckVotes / CheckSigns N=1..64 quick / 1..256 thorough; vbft getCommitConsensus N=2..64 / 2..256 (three message shapes, C from the node's chain config); plus the arithmetic intersection sweep N=1..10000; evaluation = one boundary verdict or one N of the sweep; distinct = (function, N, side)")
	r.Exhaustive(false)
	r.Assume("the statement for ALL N >= 1 is a theorem; this check samples it: implemented formulas are inline expressions and are observed only for the probed N, the sweep to 10000 is arithmetic done by the checker")
	r.Assume("the intersection claim is asserted only for N-f and ceil(2N/3); the legacy ledger rule N - floor(6N/7) is probed for equality with its formula but NOT for intersection (it does not provide it)")
	r.Assume("vbft getCommitConsensus is driven through the verif export consensus/vbft.VerifCommitConsensus with N and C of the chain configuration poly generates for N validators")

	// ---------------- arithmetic sweep
	for n := 1; n <= 10000; n++ {
		f := (n - 1) / 3
		a := n - f
		g := govThreshold(n)
		r.Eval(1)
		if n <= 300 || n%97 == 0 {
			r.Distinct("sweep", n)
		}
		if !(2*a-n > f) {
			r.Violation("block-threshold-no-intersection", fmt.Sprintf("N=%d f=%d N-f=%d: two quorums may share only %d <= f validators", n, f, a, 2*a-n), map[string]int{"N": n})
		}
		if !(2*g-n > f) {
			r.Violation("governance-threshold-no-intersection", fmt.Sprintf("N=%d f=%d ceil(2N/3)=%d: two quorums may share only %d <= f validators", n, f, g, 2*g-n), map[string]int{"N": n})
		}
		if a > n || g > n || a < 1 || g < 1 {
			r.Violation("threshold-out-of-range", fmt.Sprintf("N=%d N-f=%d ceil(2N/3)=%d", n, a, g), map[string]int{"N": n})
		}
		r.Count("arithmetic_sweep_N", 1)
	}

	// ---------------- ledger verifyHeader
	maxLedger := r.N(24, 40)
	var probedLedger []int
	for n := 1; n <= maxLedger; n++ {
		for _, rule := range []string{"new", "legacy"} {
			rng := r.Rand(fmt.Sprintf("ledger-%d-%s", n, rule))
			set := pk.SortKeys(pk.NewKeys(rng, n))
			dir := pk.TempDir("c42")
			c, err := pk.OpenChain(dir, 3, set)
			if err != nil {
				t.Fatal(err)
			}
			restore := sigkit.SetRule(rule, nil)
			T := sigkit.Required(n, rule == "legacy")
			if rule == "new" && T != blockThreshold(n) {
				t.Fatal("harness formula mismatch")
			}
			probe := func(k int, path string) (bool, error) {
				p := rng.Perm(n)
				var ks []*pk.Key
				for i := 0; i < k; i++ {
					ks = append(ks, set[p[i]])
				}
				blk, res, err := sigkit.Candidate(c, sigkit.Canonical(ks), nil)
				if err != nil {
					return false, err
				}
				if path == "header" {
					ok, err := sigkit.HeaderPath(c, blk.Header)
					if ok { // keep block tip and header index aligned
						if ok2, err2 := sigkit.BlockPath(c, blk, res, true, nil); !ok2 {
							return ok, fmt.Errorf("header accepted but block refused: %v", err2)
						}
					}
					return ok, err
				}
				return sigkit.BlockPath(c, blk, res, false, nil)
			}
			for _, path := range []string{"header", "block"} {
				ctx := map[string]interface{}{"N": n, "rule": rule, "path": path, "formula": T}
				if T-1 >= 0 {
					ok, err := probe(T-1, path)
					r.Eval(1)
					r.Distinct("ledger", rule, path, n, "below")
					if ok {
						r.Violation("ledger-threshold-below-formula:"+rule, fmt.Sprintf("N=%d rule=%s path=%s: %d signatures accepted, formula says %d", n, rule, path, T-1, T), ctx)
					} else {
						r.Count("ledger_refused_one_below", 1)
					}
					_ = err
				}
				ok, err := probe(T, path)
				r.Eval(1)
				r.Distinct("ledger", rule, path, n, "at")
				if !ok {
					r.Violation("ledger-threshold-above-formula:"+rule, fmt.Sprintf("N=%d rule=%s path=%s: %d signatures refused (%v), formula says %d suffice", n, rule, path, T, err, T), ctx)
				} else {
					r.Count("ledger_accepted_at_formula", 1)
				}
			}
			restore()
			c.Close()
			os.RemoveAll(dir)
		}
		probedLedger = append(probedLedger, n)
	}

	// ---------------- ledger verifyHeader, bookkeeper rule (genesis consensus type other than vbft):
	// the header lists all N bookkeepers named by the previous header's NextBookkeeper and carries
	// k signatures; accepted exactly from k = N - floor((N-1)/3) on.
	for n := 1; n <= maxLedger; n++ {
		rng := r.Rand(fmt.Sprintf("ledger-bk-%d", n))
		set := pk.NewKeys(rng, n)
		pubs := pk.Pubs(set)
		next, err := types.AddressFromBookkeepers(pubs)
		if err != nil {
			t.Fatal(err)
		}
		oldType := config.DefConfig.Genesis.ConsensusType
		config.DefConfig.Genesis.ConsensusType = []string{"dbft", "solo", "DBFT"}[n%3]
		dir := pk.TempDir("c42bk")
		st, err := ledgerstore.NewLedgerStore(dir)
		if err != nil {
			t.Fatal(err)
		}
		gen := &types.Block{Header: &types.Header{Timestamp: 1577836800, ConsensusData: uint64(n), NextBookkeeper: next}}
		if err := st.InitLedgerStoreWithGenesisBlock(gen, pubs); err != nil {
			t.Fatal(err)
		}
		T := blockThreshold(n)
		offer := func(k int) error {
			h := &types.Header{PrevBlockHash: gen.Hash(), Timestamp: 1577836801, Height: 1, ConsensusData: uint64(1000*n + k), NextBookkeeper: next, Bookkeepers: pubs}
			hash := h.Hash()
			p := rng.Perm(n)
			for i := 0; i < k; i++ {
				h.SigData = append(h.SigData, set[p[i]].Sign(hash[:]))
			}
			return st.AddHeader(h)
		}
		ks := []int{1, T - 1}
		if n > 3 {
			ks = append(ks, 1+rng.Intn(T-1))
		}
		for _, k := range ks {
			if k < 1 || k >= T {
				continue
			}
			r.Eval(1)
			r.Distinct("ledger", "bookkeeper", "header", n, "below", k)
			if err := offer(k); err == nil {
				r.Violation("ledger-threshold-below-formula:bookkeeper", fmt.Sprintf("N=%d bookkeeper rule: header with %d signatures accepted, formula says %d", n, k, T), map[string]interface{}{"N": n, "k": k, "formula": T})
				break
			}
			r.Count("ledger_bookkeeper_refused_below", 1)
		}
		if st.GetCurrentHeaderHeight() == 0 {
			r.Eval(1)
			r.Distinct("ledger", "bookkeeper", "header", n, "at")
			if err := offer(T); err != nil {
				r.Violation("ledger-threshold-above-formula:bookkeeper", fmt.Sprintf("N=%d bookkeeper rule: header with %d signatures refused (%v)", n, T, err), map[string]interface{}{"N": n, "formula": T})
			} else {
				r.Count("ledger_bookkeeper_accepted_at_formula", 1)
			}
		}
		st.Close()
		os.RemoveAll(dir)
		config.DefConfig.Genesis.ConsensusType = oldType
	}

	// ---------------- vbft commit quorum (getCommitConsensus through the verif export), with the
	// fault bound C the node itself configures for N validators (chain config built by poly)
	maxCommit := r.N(64, 256)
	for n := 2; n <= maxCommit; n++ { // N = 1: there is no commit message besides the proposer's own
		vals := pk.NewKeys(r.Rand(fmt.Sprintf("commit-%d", n)), n)
		pk.SetConfig(3, vals)
		cc := pk.ChainConfigFor(vals, 1, 0)
		N, C := int(cc.N), int(cc.C)
		if N != n {
			r.Violation("chain-config-N-differs", fmt.Sprintf("chain config for %d validators says N=%d", n, N), nil)
			continue
		}
		T := blockThreshold(n)
		// total = distinct signatures counted for proposer 1, the proposer's own included
		reached := func(total int, shape string) bool {
			var msgs []*vbft.VerifPoolCommit
			switch shape {
			case "committers": // total-1 other nodes each send a commit message
				for i := 0; i < total-1; i++ {
					msgs = append(msgs, &vbft.VerifPoolCommit{Committer: uint32(i + 2), BlockProposer: 1, BlockNum: 1})
				}
			case "endorsers": // one commit message carrying the endorsers' signatures
				if total-1 >= 1 {
					m := &vbft.VerifPoolCommit{Committer: 2, BlockProposer: 1, BlockNum: 1, EndorsersSig: map[uint32][]byte{}}
					for i := 1; i < total-1; i++ {
						m.EndorsersSig[uint32(i+2)] = []byte{1}
					}
					msgs = append(msgs, m)
				}
			case "repeats": // every committer sends its message twice: repeats must not count
				for i := 0; i < total-1; i++ {
					c := &vbft.VerifPoolCommit{Committer: uint32(i + 2), BlockProposer: 1, BlockNum: 1}
					msgs = append(msgs, c, c)
				}
			}
			p, _ := vbft.VerifCommitConsensus(msgs, C, N)
			return p == 1
		}
		for _, shape := range []string{"committers", "endorsers", "repeats"} {
			ctx := map[string]interface{}{"N": N, "C_from_chain_config": C, "shape": shape, "formula": T}
			r.Eval(2)
			r.Distinct("commit", shape, n)
			if T-1 >= 1 && reached(T-1, shape) {
				r.Violation("commit-quorum-below-formula", fmt.Sprintf("N=%d C=%d (%s): commit consensus reached with %d distinct signatures, N-f is %d", N, C, shape, T-1, T), ctx)
			} else {
				r.Count("commit_not_reached_one_below", 1)
			}
			if !reached(T, shape) {
				r.Violation("commit-quorum-above-formula", fmt.Sprintf("N=%d C=%d (%s): %d distinct signatures do not reach commit consensus, N-f is %d", N, C, shape, T, T), ctx)
			} else {
				r.Count("commit_reached_at_formula", 1)
			}
		}
		if n%3 == 0 {
			r.Count("commit_probed_N_multiple_of_3", 1)
		}
	}

	// ---------------- governance thresholds
	maxGov := r.N(64, 256)
	type govFn struct {
		name string
		call func(svc *native.NativeService, id []byte, addr common.Address) (bool, error)
	}
	fns := []govFn{
		{"CheckConsensusSigns", func(svc *native.NativeService, id []byte, a common.Address) (bool, error) {
			return node_manager.CheckConsensusSigns(svc, "c42", id, a)
		}},
		{"CheckVotes", func(svc *native.NativeService, id []byte, a common.Address) (bool, error) {
			return consensus_vote.CheckVotes(svc, id, a)
		}},
		{"CheckSigns", func(svc *native.NativeService, id []byte, a common.Address) (bool, error) {
			return signature_manager.CheckSigns(svc, id, []byte("sig-"+a.ToHexString()), a)
		}},
	}
	// environments are built one after the other (they write global config), then probed in parallel
	type job struct {
		n    int
		env  *nat.Env
		vals []*pk.Key
	}
	var jobs []job
	for n := 1; n <= maxGov; n++ {
		vals := pk.NewKeys(r.Rand(fmt.Sprintf("gov-%d", n)), n)
		e := nat.New(3)
		if err := e.InitGovernance(vals); err != nil {
			r.Inconclusive(fmt.Sprintf("InitGovernance N=%d: %v", n, err))
			return
		}
		jobs = append(jobs, job{n, e, vals})
	}
	foreign := pk.NewKeys(r.Rand("gov-foreign"), 3)
	var wg sync.WaitGroup
	sem := make(chan struct{}, 8)
	for _, j := range jobs {
		wg.Add(1)
		sem <- struct{}{}
		go func(j job) {
			defer wg.Done()
			defer func() { <-sem }()
			n := j.n
			T := govThreshold(n)
			svc := j.env.Service()
			for _, fn := range fns {
				id := []byte(fmt.Sprintf("id-%s-%d", fn.name, n))
				ctx := map[string]interface{}{"N": n, "function": fn.name, "formula": T}
				// outsiders never count
				if fn.name == "CheckConsensusSigns" {
					for _, f := range foreign {
						if ok, _ := fn.call(svc, id, f.Addr); ok {
							r.Violation("governance-outsider-counted:"+fn.name, fmt.Sprintf("N=%d: a non-validator approval completed the quorum", n), ctx)
						}
					}
				}
				first := 0
				for i, v := range j.vals {
					ok, err := fn.call(svc, id, v.Addr)
					if err != nil {
						r.Violation("governance-threshold-error:"+fn.name, fmt.Sprintf("N=%d voter %d: %v", n, i+1, err), ctx)
						break
					}
					if i+1 == T-1 && i >= 1 {
						// a repeated approval by an earlier validator must not complete the quorum
						if ok2, _ := fn.call(svc, id, j.vals[0].Addr); ok2 {
							r.Violation("governance-duplicate-counted:"+fn.name, fmt.Sprintf("N=%d: a repeated approval completed the quorum at %d distinct", n, i+1), ctx)
						}
						r.Count("governance_duplicate_probe", 1)
					}
					if ok {
						first = i + 1
						break
					}
				}
				r.Eval(2)
				r.Distinct("gov", fn.name, n)
				switch {
				case first == 0:
					r.Violation("governance-threshold-above-formula:"+fn.name, fmt.Sprintf("N=%d: never answered true with all %d validators approving, formula says %d", n, n, T), ctx)
				case first < T:
					r.Violation("governance-threshold-below-formula:"+fn.name, fmt.Sprintf("N=%d: answered true at %d distinct approvals, formula says %d", n, first, T), ctx)
				case first > T:
					r.Violation("governance-threshold-above-formula:"+fn.name, fmt.Sprintf("N=%d: answered true only at %d distinct approvals, formula says %d", n, first, T), ctx)
				default:
					r.Count("governance_true_exactly_at_formula", 1)
					r.Count("governance_false_below_formula", T-1)
				}
			}
		}(j)
	}
	wg.Wait()
	r.Set("probed_on_real_code", map[string]interface{}{
		"ledger_verifyHeader_N":    fmt.Sprintf("1..%d (rules new+legacy, header+block path)", maxLedger),
		"CheckConsensusSigns_N":    fmt.Sprintf("1..%d", maxGov),
		"CheckVotes_N":             fmt.Sprintf("1..%d", maxGov),
		"CheckSigns_N":             fmt.Sprintf("1..%d", maxGov),
		"vbft_getCommitConsensus":  fmt.Sprintf("2..%d with C taken from the chain config poly builds for N validators (via verif export VerifCommitConsensus)", maxCommit),
		"arithmetic_only_N":        "1..10000 (checker-side evaluation of the intersection inequalities)",
		"legacy_rule_intersection": "not asserted",
	})
	r.Sample(map[string]interface{}{"N": 7, "f": 2, "block_threshold": blockThreshold(7), "governance_threshold": govThreshold(7), "legacy_ledger_threshold": sigkit.Required(7, true)})
	r.Sample(map[string]interface{}{"ledger_probed_N": probedLedger})
	r.Require("arithmetic_sweep_N", 10000)
	r.Require("commit_reached_at_formula", (maxCommit-1)*3)
	r.Require("commit_not_reached_one_below", (maxCommit-1)*3)
	r.Require("commit_probed_N_multiple_of_3", maxCommit/3)
	r.Require("ledger_accepted_at_formula", maxLedger*4)
	r.Require("ledger_refused_one_below", maxLedger*4)
	r.Require("governance_true_exactly_at_formula", maxGov*3)
	r.Require("governance_false_below_formula", maxGov)
}
