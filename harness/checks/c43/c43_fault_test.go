// C43, part 2: password changes and save-failure injection around every mutating wallet operation.
//
// A small model (address -> password, label, default flag) follows the real ClientImpl through a
// seeded script of operations. Each kind of mutating operation is executed once while the wallet
// file cannot be saved (the temporary file "<wallet>~" used by WalletData.Save is a directory): the
// operation must report an error and must leave no trace — in memory, and in the file written by the
// next successful save. Oracle (from the property statement): after reload every account decrypts
// with exactly the password it had, to the same key pair and address; a password whose change was
// rejected, or the pre-change password of a successful change, is refused.
package c43

import (
	"fmt"
	"math/rand"
	"os"
	"path/filepath"

	"github.com/ontio/ontology-crypto/keypair"
	s "github.com/ontio/ontology-crypto/signature"
	"github.com/polynetwork/poly/account"

	"verifharness/kit"
)

type facct struct {
	c     combo
	acc   *account.Account
	addr  string
	pwd   []byte
	label string
	sch   s.SignatureScheme
	// passwords that must NOT open the account (rejected changes, superseded passwords)
	dead   [][]byte
	broken bool // a violation was already reported for this account: do not report its consequences again
}

type fwallet struct {
	x     *ctx
	id    int
	rng   *rand.Rand
	path  string
	cli   account.Client
	accts []*facct
	def   string
	nlab  int
	trace []string
	// failed: a violation was reported for this wallet; its script stops (the model no longer
	// describes the wallet, anything further would only be a consequence)
	failed bool
}

func (w *fwallet) vio(key, what string, replay interface{}) {
	w.failed = true
	w.x.vio(key, what, replay)
}

func (w *fwallet) log(f string, a ...interface{}) { w.trace = append(w.trace, fmt.Sprintf(f, a...)) }

func (w *fwallet) replay() interface{} {
	return map[string]interface{}{"wallet": w.id, "script": w.trace}
}

func (w *fwallet) setFault(on bool) {
	if on {
		os.Mkdir(w.path+"~", 0755)
	} else {
		os.Remove(w.path + "~")
	}
}

func (w *fwallet) find(addr string) *facct {
	for _, a := range w.accts {
		if a.addr == addr {
			return a
		}
	}
	return nil
}

func (w *fwallet) freshLabel() string {
	w.nlab++
	return fmt.Sprintf("L%d-%d", w.id, w.nlab)
}

func (w *fwallet) freshPwd() []byte {
	cls := []string{"ascii", "unicode", "letters-only", "high-bytes", "one-byte"}
	for {
		p := genPassword(cls[w.rng.Intn(len(cls))], w.rng)
		// keep it outside the (known) HMAC key-padding equivalence of any password in play
		clash := false
		for _, a := range w.accts {
			if hmacNorm(a.pwd) == hmacNorm(p) {
				clash = true
			}
			for _, d := range a.dead {
				if hmacNorm(d) == hmacNorm(p) {
					clash = true
				}
			}
		}
		if !clash && len(p) > 0 && p[len(p)-1] != 0 {
			return p
		}
	}
}

// verify is the oracle: cli (in-memory client or a freshly reloaded one) against the model. only
// (optional) restricts the decryption checks to one account (metadata is always checked).
func (w *fwallet) verify(cli account.Client, stage string, full bool, only *facct) {
	r := w.x.r
	if n := cli.GetAccountNum(); n != len(w.accts) {
		w.vio("fault:account-count-differs:"+stage, fmt.Sprintf("wallet holds %d accounts, model %d", n, len(w.accts)), w.replay())
		return
	}
	for _, a := range w.accts {
		if a.broken {
			continue
		}
		if w.failed {
			return
		}
		if only != nil && only != a {
			continue
		}
		r.Eval(1)
		got, err := cli.GetAccountByAddress(a.addr, a.pwd)
		if err != nil || got == nil {
			a.broken = true
			w.vio("fault:own-password-refused:"+stage, fmt.Sprintf("%s: the account no longer opens with the password it has: %v", a.c, err), w.replay())
			continue
		}
		if ok, why := privEqual(a.acc.PrivateKey, got.PrivateKey); !ok || got.Address != a.acc.Address || !keypair.ComparePublicKey(a.acc.PublicKey, got.PublicKey) {
			a.broken = true
			w.vio("fault:key-differs:"+stage, fmt.Sprintf("%s: %s", a.c, why), w.replay())
			continue
		}
		if got.SigScheme != a.sch {
			w.vio("fault:sig-scheme-differs:"+stage, fmt.Sprintf("%s: wallet says %s, model %s", a.c, got.SigScheme.Name(), a.sch.Name()), w.replay())
		}
		r.Count("fault_right_password_ok", 1)
		r.Count("fault_right_password_ok:"+stage, 1)
		dead := a.dead
		if !full && len(dead) > 1 {
			dead = dead[len(dead)-1:]
		}
		for _, d := range dead {
			r.Eval(1)
			if g, err := cli.GetAccountByAddress(a.addr, d); err == nil && g != nil {
				a.broken = true
				w.vio("fault:dead-password-accepted:"+stage, fmt.Sprintf("%s: a password the account does not have (rejected change or superseded) opens it", a.c),
					map[string]interface{}{"wallet": w.id, "script": w.trace, "dead_password": kit.Hex(d), "own_password": kit.Hex(a.pwd)})
			} else {
				r.Count("fault_dead_password_refused", 1)
			}
		}
	}
	if w.failed {
		return
	}
	for _, a := range w.accts {
		if a.label != "" {
			if md := cli.GetAccountMetadataByLabel(a.label); md == nil || md.Address != a.addr {
				w.vio("fault:label-differs:"+stage, fmt.Sprintf("%s: label %q does not lead to the account", a.c, a.label), w.replay())
				return
			}
		}
	}
	if md := cli.GetDefaultAccountMetadata(); len(w.accts) > 0 && (md == nil || md.Address != w.def) {
		got := "none"
		if md != nil {
			got = md.Address
		}
		w.vio("fault:default-account-differs:"+stage, fmt.Sprintf("default is %s, model %s", got, w.def), w.replay())
	}
}

// reload re-opens the wallet file with a fresh client and checks it against the model.
func (w *fwallet) reload(stage string) bool {
	cli, err := account.Open(w.path)
	if err != nil {
		w.vio("fault:saved-wallet-unreadable", err.Error(), w.replay())
		return false
	}
	w.verify(cli, stage, true, nil)
	if w.rng.Intn(2) == 0 {
		w.cli = cli // go on with the restarted wallet
	}
	return true
}

var faultKinds = []string{"ChangePassword", "NewAccount", "ImportAccount", "ImportExistingAddress", "SetLabel", "SetDefaultAccount", "DeleteAccount", "ChangeSigScheme"}

// do executes one operation; fault tells whether the save is made to fail. It returns false if the
// operation was not applicable.
func (w *fwallet) do(kind string, fault bool, donor *fwallet) bool {
	r := w.x.r
	tag := "ok"
	if fault {
		tag = "fault"
	}
	pick := func() *facct { return w.accts[w.rng.Intn(len(w.accts))] }
	var err error
	var touched *facct
	var apply func() // model update on success
	var opname = kind
	switch kind {
	case "ChangePassword":
		a := pick()
		touched = a
		np := w.freshPwd()
		w.log("%s ChangePassword(%s…, %x -> %x)", tag, a.addr[:6], a.pwd, np)
		w.setFault(fault)
		err = w.cli.ChangePassword(a.addr, a.pwd, np)
		w.setFault(false)
		old := a.pwd
		if fault {
			a.dead = append(a.dead, np)
		}
		apply = func() { a.dead = append(a.dead, old); a.pwd = np }
	case "NewAccount":
		cs := allCombos()[w.rng.Intn(len(allCombos()))]
		pwd := w.freshPwd()
		label := w.freshLabel()
		w.log("%s NewAccount(%s, %s)", tag, cs, label)
		w.setFault(fault)
		var acc *account.Account
		acc, err = w.cli.NewAccount(label, cs.kt, cs.curve, cs.scheme, pwd)
		w.setFault(false)
		apply = func() {
			w.accts = append(w.accts, &facct{c: cs, acc: acc, addr: acc.Address.ToBase58(), pwd: pwd, label: label, sch: cs.scheme})
			if len(w.accts) == 1 {
				w.def = w.accts[0].addr
			}
		}
	case "ImportAccount":
		// a fresh account made in the donor wallet
		cs := allCombos()[w.rng.Intn(len(allCombos()))]
		pwd := w.freshPwd()
		label := w.freshLabel()
		acc, e := donor.cli.NewAccount(label, cs.kt, cs.curve, cs.scheme, pwd)
		if e != nil {
			return false
		}
		md := donor.cli.GetAccountMetadataByAddress(acc.Address.ToBase58())
		w.log("%s ImportAccount(%s, %s)", tag, cs, label)
		w.setFault(fault)
		err = w.cli.ImportAccount(md)
		w.setFault(false)
		apply = func() {
			w.accts = append(w.accts, &facct{c: cs, acc: acc, addr: acc.Address.ToBase58(), pwd: pwd, label: label, sch: cs.scheme})
		}
	case "ImportExistingAddress":
		// only under fault: the same account, re-encrypted elsewhere under another password, is
		// imported while the save fails — the account must keep the password it has
		if !fault {
			return false
		}
		a := pick()
		md := w.cli.GetAccountMetadataByAddress(a.addr)
		if md == nil || donor.cli.GetAccountMetadataByAddress(a.addr) != nil {
			return false
		}
		md.Label = w.freshLabel()
		if e := donor.cli.ImportAccount(md); e != nil {
			return false
		}
		np := w.freshPwd()
		if e := donor.cli.ChangePassword(a.addr, a.pwd, np); e != nil {
			return false
		}
		touched = a
		md2 := donor.cli.GetAccountMetadataByAddress(a.addr)
		w.log("%s ImportAccount(existing %s…, re-encrypted under %x)", tag, a.addr[:6], np)
		w.setFault(true)
		err = w.cli.ImportAccount(md2)
		w.setFault(false)
		a.dead = append(a.dead, np)
		apply = func() {}
	case "SetLabel":
		a := pick()
		touched = a
		nl := w.freshLabel()
		w.log("%s SetLabel(%s…, %s)", tag, a.addr[:6], nl)
		w.setFault(fault)
		err = w.cli.SetLabel(a.addr, nl)
		w.setFault(false)
		apply = func() { a.label = nl }
	case "SetDefaultAccount":
		var a *facct
		for _, c := range w.accts {
			if c.addr != w.def {
				a = c
			}
		}
		if a == nil {
			return false
		}
		w.log("%s SetDefaultAccount(%s…)", tag, a.addr[:6])
		w.setFault(fault)
		err = w.cli.SetDefaultAccount(a.addr)
		w.setFault(false)
		apply = func() { w.def = a.addr }
	case "DeleteAccount":
		var a *facct
		for _, c := range w.accts {
			if c.addr != w.def {
				a = c
				break
			}
		}
		if a == nil || len(w.accts) < 3 {
			return false
		}
		touched = a
		w.log("%s DeleteAccount(%s…)", tag, a.addr[:6])
		w.setFault(fault)
		_, err = w.cli.DeleteAccount(a.addr, a.pwd)
		w.setFault(false)
		apply = func() {
			var keep []*facct
			for _, c := range w.accts {
				if c != a {
					keep = append(keep, c)
				}
			}
			w.accts = keep
		}
	case "ChangeSigScheme":
		var a *facct
		for _, c := range w.accts {
			if c.c.ktName == "ECDSA" {
				a = c
			}
		}
		if a == nil {
			return false
		}
		ns := ecdsaSchemes[w.rng.Intn(len(ecdsaSchemes))]
		if ns == a.sch {
			ns = ecdsaSchemes[(int(ns)+1)%len(ecdsaSchemes)]
		}
		touched = a
		w.log("%s ChangeSigScheme(%s…, %s)", tag, a.addr[:6], ns.Name())
		w.setFault(fault)
		err = w.cli.ChangeSigScheme(a.addr, ns)
		w.setFault(false)
		apply = func() { a.sch = ns }
	default:
		return false
	}
	r.Eval(1)
	r.Distinct("fault-op", opname, tag)
	if fault {
		if err == nil {
			w.vio("fault:success-reported-although-save-failed:"+opname, "the wallet file could not be written, the operation returned no error", w.replay())
			apply()
			return true
		}
		r.Count("fault_op_failed_as_expected", 1)
		r.Count("fault_injected:"+opname, 1)
		// no trace in memory
		if touched == nil {
			touched = pick()
		}
		w.verify(w.cli, "in-memory-after-failed-"+opname, false, touched)
		return true
	}
	if err != nil {
		w.vio("fault:operation-failed-without-fault:"+opname, err.Error(), w.replay())
		return true
	}
	apply()
	r.Count("fault_script_ok_ops", 1)
	r.Count("ok_op:"+opname, 1)
	return true
}

// runFaultJob drives one wallet: setup, then for every kind of mutating operation: the operation
// under a save fault, a later successful saving operation, reload, oracle.
func (x *ctx) runFaultJob(id int, root string) {
	r := x.r
	rng := r.Rand(fmt.Sprintf("fault-job-%d", id))
	dir := filepath.Join(root, fmt.Sprintf("f%d", id))
	os.MkdirAll(dir, 0755)
	defer os.RemoveAll(dir)
	open := func(name string) *fwallet {
		p := filepath.Join(dir, name)
		cli, err := account.Open(p)
		if err != nil {
			return nil
		}
		return &fwallet{x: x, id: id, rng: rng, path: p, cli: cli}
	}
	if id%8 != 0 {
		// 7 of 8 wallets carry their own (cheaper) scrypt parameters in the file, like a wallet
		// converted with ToLowSecurity; wallet and donor share them so that imports are representable
		for _, n := range []string{"wallet.dat", "donor.dat"} {
			c0, err := account.Open(filepath.Join(dir, n))
			if err == nil {
				wd := c0.GetWalletData()
				if wd.ToLowSecurity(nil) == nil {
					wd.Save(filepath.Join(dir, n))
				}
			}
		}
		r.Count("fault_wallets_low_security_scrypt", 1)
	}
	w, donor := open("wallet.dat"), open("donor.dat")
	if w == nil || donor == nil {
		r.Inconclusive("cannot open wallets for the fault job")
		return
	}
	// the very first save (no file yet) fails when the directory is gone
	os.RemoveAll(dir)
	w.log("fault(first save, directory removed) NewAccount")
	if acc, err := w.cli.NewAccount("ghost", keypair.PK_ECDSA, keypair.P256, s.SHA256withECDSA, []byte("ghost-pwd")); err == nil && acc != nil {
		x.vio("fault:success-reported-although-save-failed:NewAccount-first-save", "no directory to write the wallet into, NewAccount returned no error", w.replay())
	} else {
		r.Count("fault_injected:NewAccount-first-save", 1)
	}
	os.MkdirAll(dir, 0755)
	if n := w.cli.GetAccountNum(); n != 0 {
		x.vio("fault:account-count-differs:in-memory-after-failed-first-NewAccount", fmt.Sprintf("%d accounts", n), w.replay())
	}
	for i := 0; i < 3; i++ {
		w.do("NewAccount", false, donor)
	}
	if len(w.accts) < 3 {
		r.Inconclusive("fault job could not create its accounts")
		return
	}
	// success path of a password change, checked in memory and after reload
	w.do("ChangePassword", false, donor)
	w.verify(w.cli, "in-memory-after-ChangePassword", true, nil)
	if !w.reload("reload-after-ChangePassword") || w.failed {
		return
	}
	r.Count("password_change_roundtrips", 1)

	kinds := append([]string{}, faultKinds...)
	rng.Shuffle(len(kinds), func(i, j int) { kinds[i], kinds[j] = kinds[j], kinds[i] })
	for i, k := range kinds {
		// kept last: it re-encrypts an existing account elsewhere, which no other step depends on
		if k == "ImportExistingAddress" {
			kinds[i], kinds[len(kinds)-1] = kinds[len(kinds)-1], kinds[i]
		}
	}
	savers := []string{"SetLabel", "NewAccount", "ChangePassword", "SetDefaultAccount", "ImportAccount", "ChangeSigScheme", "DeleteAccount"}
	for i, k := range kinds {
		if w.failed {
			r.Count("fault_scripts_stopped_after_violation", 1)
			return
		}
		if !w.do(k, true, donor) {
			continue
		}
		if w.failed {
			continue
		}
		// any later successful save writes the in-memory state to the file
		sv := savers[(i+id)%len(savers)]
		if !w.do(sv, false, donor) {
			w.do("SetLabel", false, donor)
		}
		if w.failed || !w.reload("reload-after-failed-"+k) || w.failed {
			continue
		}
		r.Count("fault_then_save_then_reload", 1)
		r.Count("fault_cycle:"+k, 1)
	}
	// a conversion of the live wallet data that FAILS: the right passwords for the accounts before
	// position k, a wrong one at k (k = every position >= 1 in turn, one per wallet). The call must
	// report an error and every account must still open with its own password — in memory and
	// after the next save + reload.
	if !w.failed && len(w.accts) >= 2 {
		low := id%8 != 0
		wd := w.cli.GetWalletData()
		k := 1 + (id/2)%(len(wd.Accounts)-1)
		pwds := make([][]byte, len(wd.Accounts))
		okp := true
		for i, ad := range wd.Accounts {
			if a := w.find(ad.Address); a != nil {
				pwds[i] = a.pwd
			} else {
				okp = false
			}
		}
		if okp {
			pwds[k] = append(append([]byte{}, pwds[k]...), 'x')
			var err error
			conv := "ToLowSecurity"
			if low {
				conv = "ToDefaultSecurity"
			}
			w.log("failing conversion: %s with a wrong password at position %d of %d", conv, k, len(pwds))
			if p := kit.Catch(func() {
				if low {
					err = wd.ToDefaultSecurity(pwds)
				} else {
					err = wd.ToLowSecurity(pwds)
				}
			}); p != nil {
				w.vio("export-conversion-panic:"+conv, fmt.Sprint(p), w.replay())
			} else if err == nil {
				w.vio("fault:conversion-succeeded-with-wrong-password:"+conv, fmt.Sprintf("wrong password at position %d accepted", k), w.replay())
			} else {
				r.Eval(1)
				r.Distinct("failed-conversion", conv, k)
				w.verify(w.cli, "in-memory-after-failed-conversion", false, nil)
				if !w.failed && w.do("SetLabel", false, donor) && !w.failed && w.reload("reload-after-failed-conversion") && !w.failed {
					r.Count("failed_conversion_cycles", 1)
					r.Count("failed_conversion_cycles:"+conv, 1)
				}
			}
		}
	}
	// export with the other scrypt parameter set (Clone + ToLowSecurity / ToDefaultSecurity + Save,
	// as `account export` does): the exported file opens with the same passwords, and the wallet
	// it was cloned from is untouched — in memory and after its next save + reload
	if !w.failed {
		low := id%8 != 0
		wd := w.cli.GetWalletData().Clone()
		pwds := make([][]byte, len(wd.Accounts))
		okp := true
		for i, ad := range wd.Accounts {
			if a := w.find(ad.Address); a != nil {
				pwds[i] = a.pwd
			} else {
				okp = false
			}
		}
		var err error
		if !okp {
			err = fmt.Errorf("wallet data lists an account the model does not know")
		} else if low {
			w.log("ok export: Clone + ToDefaultSecurity + Save")
			if p := kit.Catch(func() { err = wd.ToDefaultSecurity(pwds) }); p != nil {
				w.vio("export-conversion-panic:ToDefaultSecurity", fmt.Sprintf("WalletData.ToDefaultSecurity panicked on a wallet with %d account(s): %v", len(pwds), p), w.replay())
				return
			}
		} else {
			w.log("ok export: Clone + ToLowSecurity + Save")
			if p := kit.Catch(func() { err = wd.ToLowSecurity(pwds) }); p != nil {
				w.vio("export-conversion-panic:ToLowSecurity", fmt.Sprintf("WalletData.ToLowSecurity panicked on a wallet with %d account(s): %v", len(pwds), p), w.replay())
				return
			}
		}
		exp := filepath.Join(dir, "exported.dat")
		if err == nil {
			err = wd.Save(exp)
		}
		if err != nil {
			w.vio("fault:export-failed", err.Error(), w.replay())
		} else if ecli, err := account.Open(exp); err != nil {
			w.vio("fault:saved-wallet-unreadable", "exported wallet: "+err.Error(), w.replay())
		} else {
			w.verify(ecli, "exported-wallet", false, nil)
			if !w.failed {
				w.verify(w.cli, "original-in-memory-after-export", false, nil)
			}
			if !w.failed && w.do("SetLabel", false, donor) && !w.failed && w.reload("original-reloaded-after-export") && !w.failed {
				r.Count("export_other_security_cycles", 1)
			}
		}
	}
	if id == 0 {
		r.Sample(map[string]interface{}{"fault_script_example": w.trace})
	}
}
