// C11: the block state-change digest (OverlayDB.ChangeHash / ExecuteResult.Hash) and the recorded
// write set depend only on the net write set: the set of written keys and the final value of each.
//
// Part A drives real OverlayDB / CacheDB objects with pairs of operation sequences that have the same
// net effect. Part B drives two real ledgers whose blocks contain transactions of a scripted test
// contract (registered into native.Contracts by this test) performing such sequences, and compares
// ExecuteResult.Hash / MerkleRoot / write set and the stored state roots.
package c11

import (
	"bytes"
	"errors"
	"fmt"
	"math/rand"
	"os"
	"sort"
	"testing"

	"verifharness/kit"
	"verifharness/kit/pk"

	"github.com/polynetwork/poly/common"
	scommon "github.com/polynetwork/poly/core/store/common"
	"github.com/polynetwork/poly/core/store/leveldbstore"
	"github.com/polynetwork/poly/core/store/overlaydb"
	"github.com/polynetwork/poly/core/types"
	"github.com/polynetwork/poly/native"
	"github.com/polynetwork/poly/native/event"
	"github.com/polynetwork/poly/native/storage"
)

// ---------------------------------------------------------------------------------------------
// operation sequences

type wop struct {
	Kind byte // 0 put, 1 delete, 2 fail (ledger scripts only), 3 read K into register Reg, 4 put register Reg under K, 5 plain read of K (result unused)
	K, V []byte
	Reg  byte
}

func (o wop) String() string {
	switch o.Kind {
	case 0:
		return fmt.Sprintf("put(%x,%x)", o.K, o.V)
	case 1:
		return fmt.Sprintf("del(%x)", o.K)
	case 3:
		return fmt.Sprintf("r%d=get(%x)", o.Reg, o.K)
	case 4:
		return fmt.Sprintf("put(%x,r%d)  // r%d holds %x", o.K, o.Reg, o.Reg, o.V)
	case 5:
		return fmt.Sprintf("get(%x)", o.K)
	}
	return "fail"
}

// tx = one transaction-layer batch; committed unless Fail
type txn struct {
	Ops    []wop
	Fail   bool // the transaction aborts: its writes must not count
	Direct bool // part A only: ops applied directly to the block layer instead of through a CacheDB
}

type net struct {
	keys  [][]byte
	final map[string][]byte // empty = deleted
	// forced[k] = values k holds right before its final write in every non-minimal sequence. They make
	// records travel between keys (archive-then-update: final[H] = previous value of K; swap: final[A] =
	// previous value of B and vice versa), which lets the generator express a write as "put the slice
	// that Get returned for another key" — the way native contracts move records around.
	forced map[string][][]byte
	// samePersisted: key whose final value was chosen equal to its persisted value ("" = none)
	samePersisted string
}

var alphabet = []byte{0x00, 'a', 'b', 0xff}

func genKey(rng *rand.Rand, prefix []byte) []byte {
	n := 1 + rng.Intn(3)
	k := append([]byte{}, prefix...)
	for i := 0; i < n; i++ {
		k = append(k, alphabet[rng.Intn(len(alphabet))])
	}
	return k
}

func genVal(rng *rand.Rand) []byte {
	v := make([]byte, 1+rng.Intn(6))
	rng.Read(v)
	return v
}

// persisted = what the test itself stored below the block (key as CacheDB callers name it -> value).
func genNet(rng *rand.Rand, prefix []byte, persisted map[string][]byte) *net {
	n := &net{final: map[string][]byte{}}
	want := 1 + rng.Intn(9)
	if len(persisted) > 0 && rng.Intn(2) == 0 {
		// a key that is re-written with exactly the value it already has in the persisted state: it is a
		// written key like any other and belongs to the write set with that value
		pks := persistedKeys(persisted)
		pk := pks[rng.Intn(len(pks))]
		n.keys = append(n.keys, pk)
		n.final[string(pk)] = append([]byte{}, persisted[string(pk)]...)
		n.samePersisted = string(pk)
	}
	for len(n.keys) < want {
		k := genKey(rng, prefix)
		if _, ok := n.final[string(k)]; ok {
			continue
		}
		n.keys = append(n.keys, k)
		if rng.Intn(10) < 3 {
			n.final[string(k)] = nil
		} else {
			n.final[string(k)] = genVal(rng)
		}
	}
	n.forced = map[string][][]byte{}
	sameLen := func(v []byte) []byte { // fixed-size record, sometimes a shorter one
		w := make([]byte, len(v))
		if rng.Intn(4) == 0 {
			w = make([]byte, 1+rng.Intn(len(v)))
		}
		rng.Read(w)
		return w
	}
	var perm []int
	for _, i := range rng.Perm(len(n.keys)) {
		if string(n.keys[i]) != n.samePersisted {
			perm = append(perm, i)
		}
	}
	if len(perm) >= 2 && rng.Intn(10) < 6 { // archive-then-update: H keeps what K held before its last write
		k, h := string(n.keys[perm[0]]), string(n.keys[perm[1]])
		o := genVal(rng)
		n.final[k], n.final[h] = sameLen(o), o
		n.forced[k] = [][]byte{o}
	}
	if len(perm) >= 4 && rng.Intn(10) < 4 { // swap of two records
		a, b := string(n.keys[perm[2]]), string(n.keys[perm[3]])
		a0 := genVal(rng)
		b0 := sameLen(a0)
		n.final[a], n.final[b] = b0, a0
		n.forced[a], n.forced[b] = [][]byte{a0}, [][]byte{b0}
	}
	return n
}

// genTxs builds one sequence with the given net effect: per key a chain of intermediate writes that
// ends in the final one; chains are merged in a random order (per-key order kept) and cut into
// transactions; aborted transactions (touching arbitrary keys) are sprinkled in between.
// style selects which equivalence the sequence exercises.
func genTxs(rng *rand.Rand, n *net, style int, prefix []byte, allowDirect bool, persisted [][]byte) ([]txn, map[string]int) {
	stats := map[string]int{}
	chains := make([][]wop, len(n.keys))
	for i, k := range n.keys {
		fin := n.final[string(k)]
		var ch []wop
		inter := 0
		switch style {
		case 0: // minimal: only the final write
		case 1: // redundant overwrites
			inter = 1 + rng.Intn(3)
		default:
			inter = rng.Intn(4)
		}
		for j := 0; j < inter; j++ {
			switch rng.Intn(5) {
			case 0:
				ch = append(ch, wop{Kind: 1, K: k, V: nil})
				stats["intermediate_delete"]++
			case 1:
				ch = append(ch, wop{Kind: 0, K: k, V: append([]byte{}, fin...)}) // the final value written early (empty = delete as put)
				stats["intermediate_same_value"]++
			case 2:
				ch = append(ch, wop{Kind: 0, K: k, V: nil})
				stats["intermediate_put_empty"]++
			default:
				ch = append(ch, wop{Kind: 0, K: k, V: genVal(rng)})
				stats["intermediate_other_value"]++
			}
		}
		if style != 0 {
			for _, fv := range n.forced[string(k)] {
				ch = append(ch, wop{Kind: 0, K: k, V: append([]byte{}, fv...)})
				stats["forced_previous_value"]++
			}
		}
		if len(fin) == 0 {
			if rng.Intn(3) == 0 {
				ch = append(ch, wop{Kind: 0, K: k, V: nil}) // deletion expressed as an empty put
				stats["final_delete_as_empty_put"]++
			} else {
				ch = append(ch, wop{Kind: 1, K: k, V: nil})
				stats["final_delete"]++
			}
			if len(ch) >= 2 && ch[len(ch)-2].Kind == 0 && len(ch[len(ch)-2].V) > 0 {
				stats["put_then_delete"]++
			}
		} else {
			ch = append(ch, wop{Kind: 0, K: k, V: append([]byte{}, fin...)})
			if len(ch) >= 2 && (ch[len(ch)-2].Kind == 1 || len(ch[len(ch)-2].V) == 0) {
				stats["delete_then_put"]++
			}
		}
		chains[i] = ch
	}
	// random merge keeping per-key order
	var flat []wop
	idx := make([]int, len(chains))
	remaining := 0
	for _, c := range chains {
		remaining += len(c)
	}
	for remaining > 0 {
		i := rng.Intn(len(chains))
		if idx[i] >= len(chains[i]) {
			continue
		}
		flat = append(flat, chains[i][idx[i]])
		idx[i]++
		remaining--
	}
	// cut into transactions
	var txs []txn
	for len(flat) > 0 {
		cut := 1 + rng.Intn(len(flat))
		if rng.Intn(3) == 0 {
			cut = len(flat)
		}
		t := txn{Ops: flat[:cut]}
		if allowDirect && rng.Intn(4) == 0 {
			t.Direct = true
		}
		flat = flat[cut:]
		if rng.Intn(4) == 0 {
			// an aborted transaction before this one: writes to keys inside and outside the net set
			var ops []wop
			for j := 0; j < 1+rng.Intn(3); j++ {
				k := genKey(rng, prefix)
				if rng.Intn(2) == 0 {
					ops = append(ops, wop{Kind: 0, K: k, V: genVal(rng)})
				} else {
					ops = append(ops, wop{Kind: 1, K: k, V: nil})
				}
			}
			txs = append(txs, txn{Ops: ops, Fail: true})
			stats["aborted_tx"]++
		}
		txs = append(txs, t)
	}
	forwardize(rng, txs, stats)
	if style != 0 {
		addReads(rng, n, txs, persisted, prefix, stats)
	}
	stats["txs"] += len(txs)
	return txs, stats
}

// addReads sprinkles plain reads (the result is not used) into the transactions: of keys that exist
// in the persisted state below the block (persisted = keys the test itself stored there with a
// non-empty value), of keys of the net set and of random keys. A read is not a write: the net write
// set, hence the expected write set and digest, are unchanged. Minimal sequences (style 0) get none,
// so every comparison has at least one side that differs in what it reads.
func addReads(rng *rand.Rand, n *net, txs []txn, persisted [][]byte, prefix []byte, stats map[string]int) {
	for ti := range txs {
		t := &txs[ti]
		k := rng.Intn(3)
		if k == 0 {
			continue
		}
		ops := append([]wop{}, t.Ops...)
		for j := 0; j < k; j++ {
			var key []byte
			fromStore := false
			switch c := rng.Intn(10); {
			case c < 6 && len(persisted) > 0:
				key = persisted[rng.Intn(len(persisted))]
				fromStore = true
			case c < 8:
				key = n.keys[rng.Intn(len(n.keys))]
			default:
				key = genKey(rng, prefix)
			}
			pos := rng.Intn(len(ops) + 1)
			ops = append(ops, wop{})
			copy(ops[pos+1:], ops[pos:])
			ops[pos] = wop{Kind: 5, K: append([]byte{}, key...)}
			stats["plain_reads"]++
			if _, written := n.final[string(key)]; fromStore && !written && !t.Fail && !t.Direct {
				stats["reads_of_persisted_unwritten_key_in_committed_tx"]++
			}
		}
		t.Ops = ops
	}
}

// forwardize rewrites some puts of a committed transaction into value-forwarding form: if, at some
// earlier point q of the SAME transaction, another key X visibly holds exactly the bytes the put
// writes, a "r = Get(X)" is inserted at q and the put becomes "Put(K, r)" with the slice returned by
// Get, not a copy. By construction r was read while X held the wanted bytes, so the net write set of
// the sequence is unchanged, whatever happens to X between the read and the use.
func forwardize(rng *rand.Rand, txs []txn, stats map[string]int) {
	committed := map[string][]byte{}
	for ti := range txs {
		t := &txs[ti]
		if t.Fail {
			continue
		}
		local := map[string][]byte{}
		vis := func() map[string][]byte {
			m := map[string][]byte{}
			for k, v := range committed {
				m[k] = v
			}
			for k, v := range local {
				m[k] = v
			}
			return m
		}
		states := make([]map[string][]byte, len(t.Ops)) // visible values right before op q
		for q, o := range t.Ops {
			states[q] = vis()
			if o.Kind == 0 {
				local[string(o.K)] = o.V
			} else if o.Kind == 1 {
				local[string(o.K)] = nil
			}
		}
		inserts := make([][]wop, len(t.Ops))
		ops := append([]wop{}, t.Ops...)
		reg := byte(0)
		for p, o := range ops {
			if o.Kind != 0 || len(o.V) == 0 || rng.Intn(10) >= 8 || reg == 255 {
				continue
			}
			type cand struct {
				q int
				x string
			}
			var cs []cand
			for q := 0; q <= p; q++ {
				var xs []string
				for x, v := range states[q] {
					if x != string(o.K) && bytes.Equal(v, o.V) {
						xs = append(xs, x)
					}
				}
				sort.Strings(xs)
				for _, x := range xs {
					cs = append(cs, cand{q, x})
				}
			}
			if len(cs) == 0 {
				continue
			}
			c := cs[rng.Intn(len(cs))]
			inserts[c.q] = append(inserts[c.q], wop{Kind: 3, K: []byte(c.x), Reg: reg})
			ops[p] = wop{Kind: 4, K: o.K, V: o.V, Reg: reg}
			reg++
			stats["forwarded_puts"]++
			for q := c.q; q < p; q++ {
				if (ops[q].Kind == 0 || ops[q].Kind == 1 || ops[q].Kind == 4) && string(ops[q].K) == c.x {
					stats["forwarded_after_source_was_overwritten"]++
					if (ops[q].Kind == 0 || ops[q].Kind == 4) && len(ops[q].V) != 0 && len(ops[q].V) <= len(o.V) {
						stats["forwarded_after_source_overwritten_by_value_not_longer"]++
					}
					break
				}
			}
		}
		var out []wop
		for q := range ops {
			out = append(out, inserts[q]...)
			out = append(out, ops[q])
		}
		t.Ops = out
		for k, v := range local {
			committed[k] = v
		}
	}
}

type kv struct {
	k string
	v []byte
}

func dumpWriteSet(m *overlaydb.MemDB) []kv {
	var out []kv
	m.ForEach(func(k, v []byte) { out = append(out, kv{string(k), append([]byte{}, v...)}) })
	return out
}

func diffKV(got, want []kv) string {
	for i := 0; i < len(got) || i < len(want); i++ {
		if i >= len(got) {
			return fmt.Sprintf("missing #%d key %x", i, want[i].k)
		}
		if i >= len(want) {
			return fmt.Sprintf("extra #%d key %x value %x", i, got[i].k, got[i].v)
		}
		if got[i].k != want[i].k {
			return fmt.Sprintf("#%d is key %x, other side has key %x", i, got[i].k, want[i].k)
		}
		if !bytes.Equal(got[i].v, want[i].v) {
			return fmt.Sprintf("#%d key %x has value %x, other side %x", i, got[i].k, got[i].v, want[i].v)
		}
	}
	return ""
}

func netKV(n *net, prefix []byte) []kv {
	var out []kv
	for k, v := range n.final {
		out = append(out, kv{string(prefix) + k, v})
	}
	sort.Slice(out, func(i, j int) bool { return out[i].k < out[j].k })
	return out
}

func txsJSON(txs []txn) []map[string]interface{} {
	var out []map[string]interface{}
	for _, t := range txs {
		var ops []string
		for _, o := range t.Ops {
			ops = append(ops, o.String())
		}
		out = append(out, map[string]interface{}{"ops": ops, "aborted": t.Fail, "direct_on_block_layer": t.Direct})
	}
	return out
}

// ---------------------------------------------------------------------------------------------
// part A: OverlayDB level

// observeEvery > 0: the digest is also asked for after every observeEvery-th transaction (an
// observation: it must not influence any later answer). Returns the number of such intermediate calls.
func applyOverlay(ov *overlaydb.OverlayDB, txs []txn, observeEvery int) int {
	cache := storage.NewCacheDB(ov)
	observed := 0
	for ti, t := range txs {
		if observeEvery > 0 && ti > 0 && ti%observeEvery == 0 {
			ov.ChangeHash()
			observed++
		}
		regs := map[byte][]byte{} // slices exactly as returned by Get (never copied)
		if t.Direct && !t.Fail {
			for _, o := range t.Ops {
				full := append([]byte{byte(scommon.ST_STORAGE)}, o.K...)
				switch o.Kind {
				case 0:
					ov.Put(full, o.V)
				case 1:
					ov.Delete(full)
				case 3:
					regs[o.Reg], _ = ov.Get(full)
				case 4:
					ov.Put(full, regs[o.Reg])
				case 5:
					ov.Get(full)
				}
			}
			continue
		}
		cache.Reset()
		for _, o := range t.Ops {
			switch o.Kind {
			case 0:
				cache.Put(o.K, o.V)
			case 1:
				cache.Delete(o.K)
			case 3:
				regs[o.Reg], _ = cache.Get(o.K)
			case 4:
				cache.Put(o.K, regs[o.Reg])
			case 5:
				cache.Get(o.K)
			}
		}
		if !t.Fail {
			cache.Commit()
		}
	}
	return observed
}

func partA(r *kit.Run) {
	rng := r.Rand("c11-overlay")
	n := r.N(3000, 100000)
	var store *leveldbstore.LevelDBStore
	var ovs [3]*overlaydb.OverlayDB
	persisted := map[string][]byte{} // what this test stored in the backing store (keys as CacheDB callers name them)
	defer func() {
		if store != nil {
			store.Close()
		}
	}()
	for i := 0; i < n; i++ {
		if i%500 == 0 {
			if store != nil {
				store.Close()
			}
			var err error
			store, err = leveldbstore.NewMemLevelDBStore()
			if err != nil {
				r.Inconclusive(err.Error())
				return
			}
			// persisted contents overlapping the key space (the digest must not depend on them either)
			persisted = map[string][]byte{}
			for j, n0 := 0, rng.Intn(30); j < n0; j++ {
				pkey, pval := genKey(rng, nil), genVal(rng)
				store.Put(append([]byte{byte(scommon.ST_STORAGE)}, pkey...), pval)
				persisted[string(pkey)] = pval
			}
			for j := range ovs {
				ovs[j] = overlaydb.NewOverlayDB(store)
			}
		}
		nt := genNet(rng, nil, persisted)
		if nt.samePersisted != "" {
			r.Count("A_nets_rewriting_a_key_with_its_persisted_value", 1)
		}
		want := netKV(nt, []byte{byte(scommon.ST_STORAGE)})
		var hashes [3]common.Uint256
		var seqs [3][]txn
		for j := 0; j < 3; j++ {
			ovs[j].Reset()
			style := j // 0 minimal, 1 redundant overwrites, 2 mixed
			if i%3 == 0 {
				style = 2
			}
			txs, stats := genTxs(rng, nt, style, nil, true, persistedKeys(persisted))
			for k, v := range stats {
				r.Count("A_"+k, v)
			}
			seqs[j] = txs
			// sequence 0 is hashed once at the end; the others are also asked for intermediate digests
			nObs := applyOverlay(ovs[j], txs, []int{0, 1, 2}[j])
			r.Count("A_intermediate_digest_calls", nObs)
			hashes[j] = ovs[j].ChangeHash()
			if nObs > 0 {
				r.Count("A_sequences_hashed_after_intermediate_digest_calls", 1)
			}
			// asking again without any write in between must give the same answer
			for rep := 0; rep < 2; rep++ {
				if again := ovs[j].ChangeHash(); again != hashes[j] {
					r.Violation("changehash-not-repeatable", fmt.Sprintf("ChangeHash() returned %x, then %x on the same unchanged block layer (call %d)", hashes[j], again, rep+2),
						map[string]interface{}{"net_write_set": kvJSON(want), "sequence": txsJSON(txs)})
					break
				} else {
					r.Count("A_repeated_digest_calls_equal", 1)
				}
			}
			r.Eval(1)
		}
		r.Distinct("A", len(nt.keys), len(seqs[0]), len(seqs[1]), len(seqs[2]), hashes[0])
		for j := 1; j < 3; j++ {
			replay := map[string]interface{}{"net_write_set": kvJSON(want), "sequence_1": txsJSON(seqs[0]), "sequence_2": txsJSON(seqs[j])}
			if hashes[j] != hashes[0] {
				r.Violation("changehash-differs-for-equal-net-writes", fmt.Sprintf("ChangeHash %x vs %x for two sequences with the same net write set (%d keys)", hashes[0], hashes[j], len(nt.keys)), replay)
			} else {
				r.Count("A_equal_digests", 1)
			}
			if d := diffKV(dumpWriteSet(ovs[j].GetWriteSet()), dumpWriteSet(ovs[0].GetWriteSet())); d != "" {
				r.Violation("writeset-differs-for-equal-net-writes", d, replay)
			} else {
				r.Count("A_equal_write_sets", 1)
			}
		}
		if d := diffKV(dumpWriteSet(ovs[0].GetWriteSet()), want); d != "" {
			r.Violation("writeset-is-not-the-net-write-set", d, map[string]interface{}{"net_write_set": kvJSON(want), "sequence": txsJSON(seqs[0])})
		}
		// sensitivity (vacuity guard, not a property clause): changing one final value changes the digest
		if i%10 == 0 {
			ovs[2].Reset()
			nt2 := &net{keys: nt.keys, final: map[string][]byte{}, forced: nt.forced, samePersisted: nt.samePersisted}
			for k, v := range nt.final {
				nt2.final[k] = v
			}
			k0 := string(nt.keys[rng.Intn(len(nt.keys))])
			nt2.final[k0] = append(genVal(rng), 0x55, 0xaa, 0x55, 0xaa, 0x55, 0xaa, 0x55)
			txs, _ := genTxs(rng, nt2, 2, nil, true, persistedKeys(persisted))
			applyOverlay(ovs[2], txs, 0)
			if ovs[2].ChangeHash() != hashes[0] {
				r.Count("A_digest_changed_with_different_final_value", 1)
			}
		}
		if i == 4 {
			r.Sample(map[string]interface{}{"part": "A", "net_write_set": kvJSON(want), "sequence_1": txsJSON(seqs[0]), "sequence_2": txsJSON(seqs[1]), "digest": kit.Hex(hashes[0][:])})
		}
		if r.Violations() > 10 {
			return
		}
	}
	if r.Violations() > 0 {
		return
	}
	r.Require("A_equal_digests", n)
	r.Require("A_equal_write_sets", n)
	r.Require("A_repeated_digest_calls_equal", 3*n)
	r.Require("A_digest_changed_with_different_final_value", n/10-1)
	for _, c := range []string{"A_intermediate_delete", "A_intermediate_same_value", "A_intermediate_put_empty", "A_intermediate_other_value", "A_final_delete", "A_final_delete_as_empty_put", "A_delete_then_put", "A_put_then_delete", "A_aborted_tx", "A_forwarded_after_source_overwritten_by_value_not_longer", "A_reads_of_persisted_unwritten_key_in_committed_tx", "A_nets_rewriting_a_key_with_its_persisted_value", "A_sequences_hashed_after_intermediate_digest_calls"} {
		r.Require(c, n/10)
	}
}

func persistedKeys(m map[string][]byte) [][]byte {
	ks := make([]string, 0, len(m))
	for k := range m {
		ks = append(ks, k)
	}
	sort.Strings(ks)
	out := make([][]byte, len(ks))
	for i, k := range ks {
		out[i] = []byte(k)
	}
	return out
}

func kvJSON(kvs []kv) map[string]string {
	out := map[string]string{}
	for _, e := range kvs {
		if len(e.v) == 0 {
			out[kit.Hex([]byte(e.k))] = "<deleted>"
		} else {
			out[kit.Hex([]byte(e.k))] = kit.Hex(e.v)
		}
	}
	return out
}

// ---------------------------------------------------------------------------------------------
// part B: ledger level with a scripted contract

var scriptAddr = common.Address{0xc1, 0x1e, 0x5c, 0x21, 0x97, 0xed}

func encodeScript(t txn) []byte {
	sink := common.NewZeroCopySink(nil)
	for _, o := range t.Ops {
		sink.WriteByte(o.Kind)
		sink.WriteVarBytes(o.K)
		if o.Kind == 3 || o.Kind == 4 {
			sink.WriteVarBytes([]byte{o.Reg})
		} else {
			sink.WriteVarBytes(o.V)
		}
	}
	if t.Fail {
		sink.WriteByte(2)
		sink.WriteVarBytes(nil)
		sink.WriteVarBytes(nil)
	}
	return sink.Bytes()
}

func runScriptContract(s *native.NativeService) ([]byte, error) {
	src := common.NewZeroCopySource(s.GetInput())
	regs := map[byte][]byte{} // slices exactly as returned by CacheDB.Get (never copied)
	for src.Len() > 0 {
		op, eof := src.NextByte()
		if eof {
			return nil, errors.New("script: truncated")
		}
		k, eof := src.NextVarBytes()
		if eof {
			return nil, errors.New("script: truncated key")
		}
		v, eof := src.NextVarBytes()
		if eof {
			return nil, errors.New("script: truncated value")
		}
		switch op {
		case 0:
			s.GetCacheDB().Put(k, v)
		case 1:
			s.GetCacheDB().Delete(k)
		case 3:
			if len(v) != 1 {
				return nil, errors.New("script: bad register")
			}
			val, err := s.GetCacheDB().Get(k)
			if err != nil {
				return nil, err
			}
			regs[v[0]] = val
		case 4:
			if len(v) != 1 {
				return nil, errors.New("script: bad register")
			}
			s.GetCacheDB().Put(k, regs[v[0]])
		case 5:
			if _, err := s.GetCacheDB().Get(k); err != nil {
				return nil, err
			}
		default:
			return nil, errors.New("script: scripted abort")
		}
	}
	return []byte{1}, nil
}

func partB(r *kit.Run) {
	rng := r.Rand("c11-ledger")
	native.Contracts[scriptAddr] = func(s *native.NativeService) { s.Register("run", runScriptContract) }
	defer delete(native.Contracts, scriptAddr)
	vals := pk.NewKeys(rng, 4)
	var chains [2]*pk.Chain
	for i := range chains {
		dir := pk.TempDir(fmt.Sprintf("c11-ledger%d-", i))
		defer os.RemoveAll(dir)
		c, err := pk.OpenChain(dir, 7, vals)
		if err != nil {
			r.Inconclusive("OpenChain: " + err.Error())
			return
		}
		defer c.Close()
		chains[i] = c
	}
	n := r.N(24, 1000)
	prefix := scriptAddr[:]
	persistedB := map[string][]byte{} // keys left live in the ledgers' state by the previous blocks (model-owned)
	for i := 0; i < n; i++ {
		nt := genNet(rng, prefix, persistedB)
		if nt.samePersisted != "" {
			r.Count("B_nets_rewriting_a_key_with_its_persisted_value", 1)
		}
		want := netKV(nt, []byte{byte(scommon.ST_STORAGE)})
		var res [2]struct {
			hash, root, stored common.Uint256
			ws                 []kv
		}
		var seqs [2][]txn
		for j, c := range chains {
			style := []int{0, 2}[j]
			if i%2 == 1 {
				style = 1 + j
			}
			txs, stats := genTxs(rng, nt, style, prefix, false, persistedKeys(persistedB))
			for k, v := range stats {
				r.Count("B_"+k, v)
			}
			seqs[j] = txs
			var btxs []*types.Transaction
			for _, t := range txs {
				btxs = append(btxs, c.InvokeTx(scriptAddr, "run", encodeScript(t)))
			}
			blk, er, err := c.BuildBlock(btxs, pk.BlockOpt{})
			if err != nil {
				r.Inconclusive("BuildBlock: " + err.Error())
				return
			}
			// the same block executed again on the same node must give the same digest
			for k := 0; k < 2; k++ {
				er2, err := c.Store.ExecuteBlock(blk)
				r.Eval(1)
				if err != nil || er2.Hash != er.Hash || er2.MerkleRoot != er.MerkleRoot {
					r.Violation("re-execution-changes-digest", fmt.Sprintf("block %d executed twice: hash %x vs %x, root %x vs %x, err %v", blk.Header.Height, er.Hash, er2.Hash, er.MerkleRoot, er2.MerkleRoot, err),
						map[string]interface{}{"txs": txsJSON(txs)})
				} else {
					r.Count("B_re_executions_equal", 1)
				}
			}
			okTx, failTx := 0, 0
			for _, nfy := range er.Notify {
				if nfy.State == event.CONTRACT_STATE_SUCCESS {
					okTx++
				} else {
					failTx++
				}
			}
			r.Count("B_tx_succeeded", okTx)
			r.Count("B_tx_aborted", failTx)
			res[j].hash, res[j].root = er.Hash, er.MerkleRoot
			res[j].ws = dumpWriteSet(er.WriteSet)
			blk2, err := pk.Reparse(blk)
			if err != nil {
				r.Inconclusive("Reparse: " + err.Error())
				return
			}
			if err := c.Store.SubmitBlock(blk2, er); err != nil {
				r.Inconclusive("SubmitBlock: " + err.Error())
				return
			}
			if c.Store.GetCurrentBlockHeight() != blk.Header.Height {
				r.Inconclusive("block not committed")
				return
			}
			res[j].stored, err = c.Store.GetStateMerkleRoot(blk.Header.Height)
			if err != nil {
				r.Inconclusive("GetStateMerkleRoot: " + err.Error())
				return
			}
			r.Eval(1)
		}
		r.Distinct("B", len(nt.keys), len(seqs[0]), len(seqs[1]), res[0].hash)
		replay := map[string]interface{}{"height": chains[0].Store.GetCurrentBlockHeight(), "net_write_set": kvJSON(want), "ledger_1_txs": txsJSON(seqs[0]), "ledger_2_txs": txsJSON(seqs[1])}
		if res[0].hash != res[1].hash {
			r.Violation("ledger-digest-differs-for-equal-net-writes", fmt.Sprintf("ExecuteResult.Hash %x vs %x", res[0].hash, res[1].hash), replay)
		} else {
			r.Count("B_equal_digests", 1)
		}
		if res[0].root != res[1].root || res[0].stored != res[1].stored {
			r.Violation("ledger-state-root-differs-for-equal-net-writes", fmt.Sprintf("MerkleRoot %x vs %x, stored %x vs %x", res[0].root, res[1].root, res[0].stored, res[1].stored), replay)
		} else {
			r.Count("B_equal_state_roots", 1)
		}
		for j := range res {
			if res[j].stored != res[j].root {
				r.Violation("stored-state-root-differs-from-execution-result", fmt.Sprintf("ledger %d height %d: stored %x, ExecuteResult.MerkleRoot %x", j+1, chains[j].Store.GetCurrentBlockHeight(), res[j].stored, res[j].root), replay)
			}
		}
		if d := diffKV(res[0].ws, res[1].ws); d != "" {
			r.Violation("ledger-writeset-differs-for-equal-net-writes", d, replay)
		} else if d := diffKV(res[0].ws, want); d != "" {
			r.Violation("ledger-writeset-is-not-the-net-write-set", d, replay)
		} else {
			r.Count("B_equal_write_sets", 1)
			r.Count("B_written_keys", len(want))
		}
		for k, v := range nt.final {
			if len(v) == 0 {
				delete(persistedB, k)
			} else {
				persistedB[k] = append([]byte{}, v...)
			}
		}
		if i == 1 {
			r.Sample(map[string]interface{}{"part": "B", "height": chains[0].Store.GetCurrentBlockHeight(), "net_write_set": kvJSON(want), "ledger_1_txs": txsJSON(seqs[0]), "ledger_2_txs": txsJSON(seqs[1]), "digest": kit.Hex(res[0].hash[:]), "state_root": kit.Hex(res[0].root[:])})
		}
		if r.Violations() > 10 {
			return
		}
	}
	if r.Violations() > 0 {
		return
	}
	r.Require("B_equal_digests", n)
	r.Require("B_equal_state_roots", n)
	r.Require("B_equal_write_sets", n)
	r.Require("B_written_keys", n)
	r.Require("B_tx_succeeded", n)
	r.Require("B_reads_of_persisted_unwritten_key_in_committed_tx", n/2)
	r.Require("B_forwarded_puts", n/2)
	r.Require("B_nets_rewriting_a_key_with_its_persisted_value", n/4)
	r.Require("B_tx_aborted", n/8)
	r.Require("B_re_executions_equal", 2*n)
}

func TestC11(t *testing.T) {
	r := kit.Start(t, "C11", "exploration")
	defer r.Finish()
	r.Rule("a net write set (1..9 keys over a small alphabet, ~30% finally deleted; in half of the sets one key is re-written with exactly the value it already has in the persisted state below the block) is expanded into operation sequences: per key 0..3 intermediate writes (other value, delete, empty put, the final value early) then the final write (deletion as Delete or as empty Put), chains merged in random order, cut into transactions (through a CacheDB + Commit, or directly on the block layer), aborted transactions touching arbitrary keys in between; some puts are rewritten to forward the uncopied slice a Get of another key returned earlier in the transaction; plain reads (of keys persisted below the block and not written by it, of written keys, of random keys) are sprinkled into all but the minimal sequences. Part A: 3 sequences per net set on real OverlayDBs over a store with random contents -> ChangeHash and GetWriteSet must coincide; the digest of sequences 2 and 3 is also asked for between transactions and every final digest is asked for three times (an observation must not change later answers). Part B: two real ledgers execute one block per net set whose scripted-contract transactions perform two different sequences -> ExecuteResult.Hash, MerkleRoot, write set and the stored state root must coincide; every block is also executed three times on its ledger. distinct = (part, #keys, #txs per sequence, digest)")
	r.Assume("sequences compared always touch the same key set (a key written then deleted is still a written key); a deletion and an empty put are the same final value")
	r.Assume("the scripted contract registered into native.Contracts for this test only calls CacheDB.Put/Delete, like real native contracts do")
	partA(r)
	if r.Violations() == 0 {
		partB(r)
	}
}
