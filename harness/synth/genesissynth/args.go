package genesissynth

import (
	"math/rand"

	pcommon "github.com/polynetwork/poly/common"
	hscommon "github.com/polynetwork/poly/native/service/header_sync/common"
)

// GenesisArgs serialises SyncGenesisHeaderParam.
func GenesisArgs(chainID uint64, blob []byte) []byte {
	p := &hscommon.SyncGenesisHeaderParam{ChainID: chainID, GenesisHeader: blob}
	sink := pcommon.NewZeroCopySink(nil)
	p.Serialization(sink)
	return sink.Bytes()
}

// SyncArgs serialises SyncBlockHeaderParam.
func SyncArgs(chainID uint64, relayer pcommon.Address, headers [][]byte) []byte {
	p := &hscommon.SyncBlockHeaderParam{ChainID: chainID, Address: relayer, Headers: headers}
	sink := pcommon.NewZeroCopySink(nil)
	p.Serialization(sink)
	return sink.Bytes()
}

// Draw picks genesis parameters on the router's height grid.
func (rd Router) Draw(rng *rand.Rand) Params {
	p := Params{ValSeed: rng.Int63(), Salt: rng.Int63(), NVals: 1 + rng.Intn(9)}
	p.Height = rd.MinH
	if rng.Intn(4) != 0 {
		p.Height = rd.MinH + rd.HStep*uint64(rng.Int63n(int64(rd.SpanH)))
	}
	return p
}
