package workloads

// Bor: the Polygon BOR light client (router POLYGON_BOR_ROUTER) together with the heimdall chain
// it takes its producer spans from (router POLYGON_HEIMDALL_ROUTER). One universe holds ONE
// heimdall side chain and TWO bor side chains whose ExtraInfo names that heimdall chain. Bor
// headers are really sealed (borsynth), span proofs are honest IAVL / multistore proofs of a "bor"
// store whose app hash is carried by a heimdall header signed by the current heimdall validators.
//
// Besides driving (every call is tracked like in the other workloads) the workload carries one
// behavioural oracle, a differential one: after chain A verified span S_A and chain B verified
// span S_B (different producers), two sprint-end headers WITHOUT proof are offered to the same
// chain on the same parent, sealed by the same producer, differing only in the announced producer
// list: the one announcing the chain's OWN latest verified span must be accepted and the one
// announcing the OTHER chain's span must be refused ("bor:span-record-shared-between-chains").

import (
	"encoding/json"
	"fmt"
	"math/big"
	"math/rand"

	"github.com/polynetwork/poly/native/service/header_sync/polygon"
	"github.com/polynetwork/poly/native/service/utils"

	"verifharness/kit"
	"verifharness/kit/nat"
	"verifharness/kit/pk"
	"verifharness/synth/borsynth"
	"verifharness/synth/chains"
	"verifharness/synth/hmsynth"
	"verifharness/synth/tmsynth"
)

const borSpanViolation = "bor:span-record-shared-between-chains"

// borSide is one bor side chain of the universe.
type borSide struct {
	tag   string
	id    uint64
	c     *borsynth.Chain
	tip   *borsynth.Node
	own   *borsynth.Span // latest span this chain verified with a proof (nil: none)
	alive bool
}

type borTour struct {
	r     *kit.Run
	rng   *rand.Rand
	e     *nat.Env
	hid   uint64
	label string
	hvals []*hmsynth.Val // heimdall validators in force
	hh    int64          // next heimdall height
	st    *tmsynth.Store
	ver   *tmsynth.Version
}

// sync submits headers of one call; accepted = the call succeeded AND stored something (the
// handler silently skips known headers and orphans).
func (t *borTour) sync(s *borSide, wires ...[]byte) (*nat.CallRecord, bool) {
	rec := chains.SyncHeaders(t.e, s.id, wires)
	return rec, rec.Ok && len(rec.WriteSet) > 0
}

// good submits a header that an honest relayer would submit; the node becomes the chain's tip.
func (t *borTour) good(s *borSide, n *borsynth.Node, proof []byte, what string) bool {
	if !s.alive {
		return false
	}
	rec, ok := t.sync(s, borsynth.Wire(n, proof))
	if !ok {
		s.alive = false
		t.r.Count("bor_unexpected_refusal", 1)
		t.r.Set("bor_unexpected_refusal:"+what, map[string]interface{}{"chain": s.tag, "number": n.Number(), "err": rec.Err})
		fmt.Printf("bor workload: honest header refused (%s, chain %s, number %d): %s\n", what, s.tag, n.Number(), rec.Err)
		return false
	}
	t.r.Count("bor_headers_accepted", 1)
	s.tip = n
	return true
}

// bad submits a header that must not be stored.
func (t *borTour) bad(s *borSide, n *borsynth.Node, proof []byte, what string) {
	if !s.alive {
		return
	}
	rec, ok := t.sync(s, borsynth.Wire(n, proof))
	if ok {
		t.r.Count("bor_unexpected_acceptance", 1)
		t.r.Set("bor_unexpected_acceptance:"+what, map[string]interface{}{"chain": s.tag, "number": n.Number(), "header": string(borsynth.Wire(n, proof))})
		fmt.Printf("bor workload: dishonest header accepted (%s, chain %s, number %d)\n", what, s.tag, n.Number())
		return
	}
	_ = rec
	t.r.Count("bor_refused:"+what, 1)
}

func (t *borTour) opt() borsynth.Opt {
	o := borsynth.Opt{Late: uint64(t.rng.Intn(3))}
	if t.rng.Intn(3) == 0 {
		o.BaseFee = big.NewInt(1 + t.rng.Int63n(1<<32))
	}
	return o
}

// fill extends the chain with honest non-sprint-end headers up to (not including) the next sprint
// end; some are submitted several per call.
func (t *borTour) fill(s *borSide) {
	var batch [][]byte
	var nodes []*borsynth.Node
	flush := func() {
		if len(batch) == 0 || !s.alive {
			batch, nodes = nil, nil
			return
		}
		rec, ok := t.sync(s, batch...)
		if !ok {
			s.alive = false
			t.r.Count("bor_unexpected_refusal", 1)
			t.r.Set("bor_unexpected_refusal:batch", map[string]interface{}{"chain": s.tag, "number": nodes[0].Number(), "err": rec.Err})
			fmt.Printf("bor workload: honest headers refused (batch, chain %s, from number %d): %s\n", s.tag, nodes[0].Number(), rec.Err)
		} else {
			t.r.Count("bor_headers_accepted", len(batch))
			s.tip = nodes[len(nodes)-1]
		}
		batch, nodes = nil, nil
	}
	cur := s.tip
	for s.alive && !s.c.IsSprintEnd(cur.Number()+1) {
		n := s.c.Next(t.rng, cur, t.opt())
		batch, nodes = append(batch, borsynth.Wire(n, nil)), append(nodes, n)
		cur = n
		if t.rng.Intn(2) == 0 {
			flush()
		}
	}
	flush()
}

// refusalsInside: dishonest children of the tip (which must not be followed by a sprint end).
func (t *borTour) refusalsInside(s *borSide, outsider *borsynth.Producer, spanProof []byte) {
	if !s.alive || s.c.IsSprintEnd(s.tip.Number()+1) {
		return
	}
	c, tip := s.c, s.tip
	nprod := len(borsynth.Order(c.SnapFor(tip)))
	t.bad(s, c.Next(t.rng, tip, borsynth.Opt{Sealer: outsider}), nil, "sealer-outside-producer-set")
	if nprod > 1 {
		// a backup producer claiming the in-turn difficulty
		t.bad(s, c.Next(t.rng, tip, borsynth.Opt{Succession: 1, DiffDelta: 1}), nil, "backup-sealer-with-in-turn-difficulty")
		// the in-turn producer's slot (time, difficulty) sealed by a backup producer's key
		snap := c.SnapFor(tip)
		t.bad(s, c.Next(t.rng, tip, borsynth.Opt{Sealer: c.Keys[borsynth.Order(snap)[1]]}), nil, "wrong-sealer-for-slot")
		// a backup producer before its delay has passed
		t.bad(s, c.Next(t.rng, tip, borsynth.Opt{Succession: 1, Early: 1}), nil, "backup-sealer-too-soon")
		// an honest backup block (a fork sibling of lower difficulty): stored, not the tip
		if rec, ok := t.sync(s, borsynth.Wire(c.Next(t.rng, tip, borsynth.Opt{Succession: 1}), nil)); ok {
			t.r.Count("bor_headers_accepted", 1)
			t.r.Count("bor_backup_sibling_accepted", 1)
		} else {
			t.r.Count("bor_unexpected_refusal", 1)
			t.r.Set("bor_unexpected_refusal:backup-sibling", map[string]interface{}{"chain": s.tag, "err": rec.Err})
			fmt.Printf("bor workload: honest backup header refused (chain %s): %s\n", s.tag, rec.Err)
		}
	}
	t.bad(s, c.Next(t.rng, tip, borsynth.Opt{Early: 1}), nil, "before-period")
	t.bad(s, c.Next(t.rng, tip, borsynth.Opt{DiffDelta: int64(nprod) + 3}), nil, "wrong-difficulty")
	n := c.Next(t.rng, tip, borsynth.Opt{})
	n.H.Extra[len(n.H.Extra)-7] ^= 0x40
	t.bad(s, n, nil, "damaged-seal")
	t.bad(s, c.Next(t.rng, tip, borsynth.Opt{Announce: []*borsynth.Producer{outsider}}), nil, "producers-outside-sprint-end")
	t.bad(s, c.Next(t.rng, tip, borsynth.Opt{}), spanProof, "proof-outside-sprint-end")
	n = c.Next(t.rng, tip, borsynth.Opt{})
	n.H.MixDigest[3] = 1
	borsynth.SealHeader(n.H, c.Keys[borsynth.Order(c.SnapFor(tip))[0]].Key)
	t.bad(s, n, nil, "mix-digest")
	// orphan and repeat: silently skipped
	orphan := c.Next(t.rng, &borsynth.Node{H: tip.H, Hash: borsynth.SealHash(tip.H), Snap: tip.Snap}, borsynth.Opt{})
	if _, ok := t.sync(s, borsynth.Wire(orphan, nil)); ok {
		t.r.Count("bor_unexpected_acceptance", 1)
	}
	if _, ok := t.sync(s, borsynth.Wire(tip, nil)); ok && tip != c.Genesis {
		t.r.Count("bor_unexpected_acceptance", 1)
	}
}

// proofFor: span proof of the committed store version under a header signed by the heimdall
// validators in force.
func (t *borTour) proofFor(sp *borsynth.Span) []byte {
	p, v := t.st.Prove(t.ver.Ver, sp.Key())
	hdr := borsynth.Header(t.label, t.hh, t.hvals, hmsynth.Hash(t.hvals), t.ver.AppHash, borsynth.All(t.hvals))
	t.hh++
	return borsynth.Proof(t.st.KeyPath(sp.Key()), v, p, hdr)
}

// probe: the discriminating pair on chain s. own = the span s verified last, other = the span the
// other bor chain verified last.
func (t *borTour) probe(s *borSide, other *borsynth.Span, otherTag string) {
	if !s.alive || s.own == nil || other == nil || !s.c.IsSprintEnd(s.tip.Number()+1) {
		return
	}
	o := t.opt()
	o.Announce = other.Producers
	foreign := s.c.Next(t.rng, s.tip, o)
	o.Announce = s.own.Producers
	own := s.c.Next(t.rng, s.tip, o)
	replay := func(n *borsynth.Node, err string) map[string]interface{} {
		return map[string]interface{}{"chain": s.tag, "chain_id": s.id, "heimdall_chain_id": t.hid, "own_span": s.own.ID, "other_chain": otherTag,
			"other_span": other.ID, "number": n.Number(), "header": string(borsynth.Wire(n, nil)), "err": err}
	}
	recF, okF := t.sync(s, borsynth.Wire(foreign, nil))
	if okF {
		t.r.Violation(borSpanViolation, fmt.Sprintf("bor chain %s accepted a sprint-end header without proof that announces the producers of span %d, which only bor chain %s verified; its own latest verified span is %d",
			s.tag, other.ID, otherTag, s.own.ID), replay(foreign, recF.Err))
	} else {
		t.r.Count("bor_refused:producers-of-other-chains-span", 1)
	}
	recO, okO := t.sync(s, borsynth.Wire(own, nil))
	if !okO {
		t.r.Violation(borSpanViolation, fmt.Sprintf("bor chain %s refused a sprint-end header without proof that announces the producers of its own latest verified span %d (after bor chain %s verified span %d): %s",
			s.tag, s.own.ID, otherTag, other.ID, recO.Err), replay(own, recO.Err))
		s.alive = false
	} else {
		t.r.Count("bor_headers_accepted", 1)
		t.r.Count("bor_sprint_end_without_proof_accepted", 1)
		s.tip = own
	}
	t.r.Count("bor_cross_chain_span_probe", 1)
	t.r.Distinct("bor-probe", s.tag, okF, okO, len(s.own.Producers), len(other.Producers))
}

// Bor: one heimdall chain, two bor chains following it.
func Bor(r *kit.Run, rng *rand.Rand, pal *Palette) {
	const name = "bor"
	e := nat.New(extraNet)
	e.Record = true
	defer finish(r, e, name)
	if err := e.InitGovernance(pk.NewKeys(rng, 4)); err != nil {
		r.Count("workload_setup_failed:"+name, 1)
		return
	}
	// chain ids
	seen := map[uint64]bool{}
	pick := func(def uint64) uint64 {
		id := pal.Chain(def)
		for id == 0 || seen[id] {
			id += 1000003
		}
		seen[id] = true
		return id
	}
	hid, ida, idb := pick(2715), pick(2716), pick(2717)
	t := &borTour{r: r, rng: rng, e: e, hid: hid, label: "heimdall-" + fmt.Sprint(80000+rng.Intn(1000))}
	sprints := []uint64{4, 8}
	mkParams := func() borsynth.Params {
		p := borsynth.Params{Sprint: sprints[rng.Intn(2)], Period: uint64(1 + rng.Intn(3)), BackupMultiplier: uint64(1 + rng.Intn(3))}
		p.ProducerDelay = p.Period + uint64(rng.Intn(4))
		return p
	}
	pa, pb := mkParams(), mkParams()
	if err := chains.Register(e, hid, utils.POLYGON_HEIMDALL_ROUTER, "heimdall", 1, nil, nil); err != nil {
		r.Count("workload_setup_failed:"+name, 1)
		return
	}
	if err := chains.Register(e, ida, utils.POLYGON_BOR_ROUTER, "bor-a", 1, make([]byte, 20), pa.ExtraInfo(hid)); err != nil {
		r.Count("workload_setup_failed:"+name, 1)
		return
	}
	if err := chains.Register(e, idb, utils.POLYGON_BOR_ROUTER, "bor-b", 1, make([]byte, 20), pb.ExtraInfo(hid)); err != nil {
		r.Count("workload_setup_failed:"+name, 1)
		return
	}
	op := nat.Operator(e.Validators)

	// ---- heimdall: validators, application state with span records, trusted header ----
	V1 := hmsynth.NewVals(rng, []int64{3, 2, 2, 1})
	V2 := hmsynth.NewVals(rng, []int64{4, 3, 1})
	t.hvals = V1
	t.hh = int64(3000 + rng.Intn(1000))
	// producers: chain A starts with A0, chain B with B0; spans select A1 / B1 / A2 ...
	nA0, nB0 := 1+rng.Intn(3), 1+rng.Intn(3)
	A0 := borsynth.NewProducers(rng, nA0, 50, 1)
	B0 := borsynth.NewProducers(rng, nB0, 50, 11)
	freshA := borsynth.NewProducers(rng, 3, 50, 21)
	freshB := borsynth.NewProducers(rng, 3, 50, 31)
	// A1: one old producer stays (other power), new ones join; B1 likewise. The two selections differ.
	A1 := append([]*borsynth.Producer{A0[0].WithPower(1 + rng.Int63n(50))}, freshA[:1+rng.Intn(2)]...)
	B1 := append([]*borsynth.Producer{B0[0].WithPower(1 + rng.Int63n(50))}, freshB[:1+rng.Intn(2)]...)
	if rng.Intn(3) == 0 {
		// the same producer addresses on both chains, different powers only
		B1 = nil
		for _, p := range A1 {
			B1 = append(B1, p.WithPower(p.Power+1+rng.Int63n(9)))
		}
	}
	A2 := append([]*borsynth.Producer{freshA[2]}, A1[1:]...)
	X := borsynth.NewProducers(rng, 2, 50, 41)
	outsider := borsynth.NewProducers(rng, 1, 50, 51)[0]
	na, nb := pa.Sprint*uint64(1000+rng.Intn(5000)), pb.Sprint*uint64(1000+rng.Intn(5000))
	lo, hi := na, nb
	if lo > hi {
		lo, hi = hi, lo
	}
	hi += 100 * 8
	sid := uint64(1 + rng.Intn(500))
	spanA1 := &borsynth.Span{ID: sid, Start: lo, End: hi, Producers: A1, BorChainID: "80001"}
	spanB1 := &borsynth.Span{ID: sid + 2, Start: lo, End: hi, Producers: B1, BorChainID: "80002"}
	spanA2 := &borsynth.Span{ID: sid + 1, Start: lo, End: hi, Producers: A2, BorChainID: "80001"}
	spanX := &borsynth.Span{ID: sid + 3, Start: lo, End: hi, Producers: X, BorChainID: "80001"}
	spanPast := &borsynth.Span{ID: sid + 4, Start: 1, End: lo - 1, Producers: A1, BorChainID: "80001"}
	t.st = tmsynth.NewStore("bor", "acc", "staking")
	t.st.SetIn("acc", []byte("account"), []byte("balance"))
	t.st.SetIn("staking", spanA1.Key(), spanA1.Value())
	t.st.Set(spanA1.Key(), spanA1.Value())
	t.st.Set(spanB1.Key(), spanB1.Value())
	old := t.st.Commit()
	t.st.Set(spanA2.Key(), spanA2.Value())
	t.st.Set(spanX.Key(), spanX.Value())
	t.st.Set(spanPast.Key(), spanPast.Value())
	t.ver = t.st.Commit()

	hgen := borsynth.EncodeHeader(borsynth.Header(t.label, t.hh, V1, hmsynth.Hash(V1), old.AppHash, borsynth.All(V1)))
	t.hh++
	chains.SyncGenesis(e, hid, hgen, pk.Single(e.Validators[1])) // not the operator
	if rec := chains.SyncGenesis(e, hid, hgen, op); !rec.Ok {
		r.Count("workload_setup_failed:"+name, 1)
		return
	}
	chains.SyncGenesis(e, hid, hgen, op) // second installation

	// ---- bor trusted headers ----
	t0 := uint64(1600000000 + rng.Intn(1000000))
	ca, ga := borsynth.NewChain(rng, pa, na, t0, A0)
	cb, gb := borsynth.NewChain(rng, pb, nb, t0+uint64(rng.Intn(1000)), B0)
	for _, c := range []*borsynth.Chain{ca, cb} {
		c.Learn(A0)
		c.Learn(B0)
		c.Learn(freshA)
		c.Learn(freshB)
		c.Learn(X)
	}
	A := &borSide{tag: "A", id: ida, c: ca, tip: ca.Genesis, alive: true}
	B := &borSide{tag: "B", id: idb, c: cb, tip: cb.Genesis, alive: true}
	chains.SyncGenesis(e, ida, ga, pk.Single(e.Validators[1])) // not the operator
	var noSnap polygon.HeaderWithOptionalSnap
	json.Unmarshal(ga, &noSnap)
	noSnap.Snapshot = nil
	if b, err := json.Marshal(noSnap); err == nil {
		chains.SyncGenesis(e, ida, b, op) // no producer snapshot
	}
	if rec := chains.SyncGenesis(e, ida, ga, op); !rec.Ok {
		r.Count("workload_setup_failed:"+name, 1)
		return
	}
	chains.SyncGenesis(e, ida, ga, op) // second installation
	if rec := chains.SyncGenesis(e, idb, gb, op); !rec.Ok {
		r.Count("workload_setup_failed:"+name, 1)
		return
	}

	// ---- chain A, first sprint ----
	pA1 := t.proofFor(spanA1)
	t.refusalsInside(A, outsider, pA1)
	t.fill(A)
	if A.alive {
		// sprint end: refusals first (none of them may leave a span record behind)
		end := func(ann []*borsynth.Producer) *borsynth.Node {
			o := t.opt()
			o.Announce = ann
			return A.c.Next(rng, A.tip, o)
		}
		t.bad(A, end(A1), nil, "no-proof-and-no-verified-span")
		t.bad(A, end(A1), t.proofFor(spanX), "proof-of-another-span")
		t.bad(A, end(A1), t.proofFor(spanPast), "span-does-not-cover-the-block")
		t.bad(A, end(A0), pA1, "announcement-differs-from-proven-span")
		t.bad(A, end(nil), pA1, "empty-announcement")
		{ // proof taken at the current version under a header that carries the app hash of another height
			p, v := t.st.Prove(t.ver.Ver, spanA1.Key())
			hdr := borsynth.Header(t.label, t.hh, V1, hmsynth.Hash(V1), old.AppHash, borsynth.All(V1))
			t.bad(A, end(A1), borsynth.Proof(t.st.KeyPath(spanA1.Key()), v, p, hdr), "proof-against-another-heimdall-height")
			// heimdall header without quorum
			hdr = borsynth.Header(t.label, t.hh, V1, hmsynth.Hash(V1), t.ver.AppHash, map[int]bool{0: true})
			t.bad(A, end(A1), borsynth.Proof(t.st.KeyPath(spanA1.Key()), v, p, hdr), "heimdall-header-without-quorum")
			// heimdall header signed by validators that are not in force
			hdr = borsynth.Header(t.label, t.hh, V2, hmsynth.Hash(V2), t.ver.AppHash, borsynth.All(V2))
			t.bad(A, end(A1), borsynth.Proof(t.st.KeyPath(spanA1.Key()), v, p, hdr), "heimdall-header-of-foreign-validators")
			// damaged proofs
			good := borsynth.Header(t.label, t.hh, V1, hmsynth.Hash(V1), t.ver.AppHash, borsynth.All(V1))
			dv := append([]byte{}, v...)
			dv[len(dv)/2] ^= 1
			t.bad(A, end(A1), borsynth.Proof(t.st.KeyPath(spanA1.Key()), dv, p, good), "damaged-span-value")
			dp := *p
			dp.Ops = append(dp.Ops[:0:0], p.Ops...)
			dp.Ops[0].Data = append([]byte{}, dp.Ops[0].Data...)
			dp.Ops[0].Data[len(dp.Ops[0].Data)/2] ^= 1
			t.bad(A, end(A1), borsynth.Proof(t.st.KeyPath(spanA1.Key()), v, &dp, good), "damaged-proof-op")
			dp2 := *p
			dp2.Ops = p.Ops[:1]
			t.bad(A, end(A1), borsynth.Proof(t.st.KeyPath(spanA1.Key()), v, &dp2, good), "proof-without-store-level")
			t.bad(A, end(A1), borsynth.Proof(t.st.KeyPath(spanB1.Key()), v, p, good), "key-path-of-another-record")
			// the same record proven in another store
			t.st.Main = "staking"
			sp, sv := t.st.Prove(t.ver.Ver, spanA1.Key())
			kp := t.st.KeyPath(spanA1.Key())
			t.st.Main = "bor"
			t.bad(A, end(A1), borsynth.Proof(kp, sv, sp, good), "proof-in-another-store")
			t.bad(A, end(A1), []byte{0x0a, 0x01}, "undecodable-proof")
			t.hh++
		}
		t.bad(A, end(A1), nil, "no-proof-and-no-verified-span")
		// wrong sealer with a perfectly good proof
		o := borsynth.Opt{Announce: A1, Sealer: outsider}
		t.bad(A, A.c.Next(rng, A.tip, o), pA1, "sprint-end-sealer-outside-producer-set")
		if t.good(A, end(A1), pA1, "sprint-end-with-proof") {
			r.Count("bor_sprint_end_with_proof_accepted", 1)
			A.own = spanA1
		}
	}

	// ---- chain B, first sprint: no verified span of its own yet ----
	t.refusalsInside(B, outsider, pA1)
	t.fill(B)
	if B.alive {
		end := func(ann []*borsynth.Producer) *borsynth.Node {
			o := t.opt()
			o.Announce = ann
			return B.c.Next(rng, B.tip, o)
		}
		if A.own != nil {
			// B never verified a span: a header without proof has nothing to be checked against,
			// whatever the sibling chain verified
			n := end(A.own.Producers)
			rec, ok := t.sync(B, borsynth.Wire(n, nil))
			if ok {
				r.Violation(borSpanViolation, fmt.Sprintf("bor chain B, which never verified a span, accepted a sprint-end header without proof announcing the producers of span %d verified by bor chain A", A.own.ID),
					map[string]interface{}{"chain": "B", "chain_id": idb, "heimdall_chain_id": hid, "other_chain": "A", "other_span": A.own.ID, "header": string(borsynth.Wire(n, nil)), "err": rec.Err})
			} else {
				r.Count("bor_refused:no-verified-span-but-sibling-has-one", 1)
			}
			r.Count("bor_no_span_probe", 1)
		}
		t.bad(B, end(B1), nil, "no-proof-and-no-verified-span")
		if t.good(B, end(B1), t.proofFor(spanB1), "sprint-end-with-proof") {
			r.Count("bor_sprint_end_with_proof_accepted", 1)
			B.own = spanB1
		}
	}

	// ---- chain A, second sprint (producers A1), sprint end without proof: probe ----
	t.refusalsInside(A, outsider, pA1)
	t.fill(A)
	t.probe(A, B.own, "B")

	// ---- heimdall epoch change V1 -> V2 (the stored span records stay what they are) ----
	epoch := borsynth.EncodeHeader(borsynth.Header(t.label, t.hh, V1, hmsynth.Hash(V2), t.ver.AppHash, borsynth.All(V1)))
	chains.SyncHeaders(e, hid, [][]byte{borsynth.EncodeHeader(borsynth.Header(t.label, t.hh, V1, hmsynth.Hash(V2), t.ver.AppHash, map[int]bool{0: true}))}) // no quorum
	changed := chains.SyncHeaders(e, hid, [][]byte{epoch}).Ok
	t.hh++
	stale := t.proofFor(spanA2) // signed by V1
	if changed {
		t.hvals = V2
		r.Count("bor_heimdall_epoch_changes", 1)
	}

	// ---- chain A, third sprint: a new span with proof (producers A2) ----
	t.fill(A)
	if A.alive && A.c.IsSprintEnd(A.tip.Number()+1) {
		o := t.opt()
		o.Announce = A2
		if changed {
			t.bad(A, A.c.Next(rng, A.tip, o), stale, "heimdall-header-of-replaced-validators")
		}
		if t.good(A, A.c.Next(rng, A.tip, o), t.proofFor(spanA2), "sprint-end-with-proof-2") {
			r.Count("bor_sprint_end_with_proof_accepted", 1)
			A.own = spanA2
		}
	}

	// ---- chain B, second sprint (producers B1), sprint end without proof: probe ----
	t.refusalsInside(B, outsider, pA1)
	t.fill(B)
	t.probe(B, A.own, "A")

	// ---- chain A, fourth sprint (producers A2): without proof again ----
	t.fill(A)
	t.probe(A, B.own, "B")
	r.Count("router_workload:"+name, 1)
}
