// Package neosynth builds NEO (2.x) light-client data with generated keys using neo-gogogo:
// m-of-n consensus multi-signature scripts, block headers and state roots whose witness slots are
// of chosen kinds, and the independent judgement "how many distinct members validly signed".
package neosynth

import (
	"crypto/sha256"
	"math/rand"
	"sort"

	"github.com/joeqian10/neo-gogogo/block"
	"github.com/joeqian10/neo-gogogo/crypto"
	"github.com/joeqian10/neo-gogogo/helper"
	"github.com/joeqian10/neo-gogogo/helper/io"
	"github.com/joeqian10/neo-gogogo/mpt"
	"github.com/joeqian10/neo-gogogo/tx"
	"github.com/joeqian10/neo-gogogo/wallet/keys"
)

// Set is an m-of-n consensus committee.
type Set struct {
	Keys   []*keys.KeyPair // ascending by public key (script order)
	M      int
	Script []byte
	Hash   helper.UInt160
}

// NewKey derives a key pair from the rng.
func NewKey(rng *rand.Rand) *keys.KeyPair {
	for {
		b := make([]byte, 32)
		rng.Read(b)
		b[0] &= 0x7f
		if k, err := keys.NewKeyPair(b); err == nil && k.PublicKey != nil && k.PublicKey.X != nil {
			return k
		}
	}
}

// NewSet makes a committee of n keys needing m signatures (1 <= m < n <= 16).
func NewSet(rng *rand.Rand, n, m int) *Set {
	ks := make([]*keys.KeyPair, n)
	for i := range ks {
		ks[i] = NewKey(rng)
	}
	return FromKeys(ks, m)
}

// FromKeys builds the committee of the given keys.
func FromKeys(ks []*keys.KeyPair, m int) *Set {
	ks = append([]*keys.KeyPair{}, ks...)
	sort.Sort(keys.KeyPairSlice(ks))
	pubs := make([]*keys.PublicKey, len(ks))
	for i, k := range ks {
		pubs[i] = k.PublicKey
	}
	script, err := keys.CreateMultiSigRedeemScript(m, pubs...)
	if err != nil {
		panic(err)
	}
	h, err := helper.UInt160FromBytes(crypto.Hash160(script))
	if err != nil {
		panic(err)
	}
	return &Set{Keys: ks, M: m, Script: script, Hash: h}
}

// SlotKind is what one invocation-script slot holds.
type SlotKind int

const (
	Valid       SlotKind = iota // next unused member (ascending order), honest signature
	Foreign                     // honest signature of a key outside the committee
	BadSig                      // next unused member signs other data
	DupSameSig                  // the previous valid slot's signature bytes again
	DupFreshSig                 // the previous valid slot's member signs again
	Garbage                     // 64 random bytes
	NKinds
)

func (k SlotKind) String() string {
	return [...]string{"valid", "foreign", "bad-sig", "dup-same-sig", "dup-fresh-sig", "garbage"}[k]
}

// Sigs produces one 64-byte signature per slot. who = committee members to use for Valid/BadSig
// slots, in the order given (callers pass ascending indices for an honest witness).
func (s *Set) Sigs(rng *rand.Rand, msg []byte, kinds []SlotKind, who []int) [][]byte {
	var out [][]byte
	next := 0
	var prevKey *keys.KeyPair
	var prevSig []byte
	member := func() *keys.KeyPair {
		k := s.Keys[who[next%len(who)]]
		next++
		return k
	}
	sign := func(k *keys.KeyPair, m []byte) []byte {
		sig, err := k.Sign(m)
		if err != nil {
			panic(err)
		}
		return sig
	}
	for _, kd := range kinds {
		switch kd {
		case Valid:
			k := member()
			sg := sign(k, msg)
			prevKey, prevSig = k, sg
			out = append(out, sg)
		case Foreign:
			out = append(out, sign(NewKey(rng), msg))
		case BadSig:
			o := sha256.Sum256(msg)
			out = append(out, sign(member(), o[:]))
		case DupSameSig:
			if prevSig == nil {
				k := member()
				prevKey, prevSig = k, sign(k, msg)
			}
			out = append(out, prevSig)
		case DupFreshSig:
			if prevKey == nil {
				k := member()
				prevKey, prevSig = k, sign(k, msg)
				out = append(out, prevSig)
				continue
			}
			out = append(out, sign(prevKey, msg))
		case Garbage:
			g := make([]byte, 64)
			rng.Read(g)
			out = append(out, g)
		}
	}
	return out
}

// Invocation encodes signatures as a NEO 2 invocation script (PUSHBYTES64 sig)*.
func Invocation(sigs [][]byte) []byte {
	var out []byte
	for _, s := range sigs {
		out = append(out, 0x40)
		out = append(out, s...)
	}
	return out
}

// DistinctValid counts committee members for which at least one signature verifies over msg.
func (s *Set) DistinctValid(msg []byte, sigs [][]byte) int {
	n := 0
	for _, k := range s.Keys {
		for _, sg := range sigs {
			if len(sg) == 64 && keys.VerifySignature(msg, sg, k.PublicKey) {
				n++
				break
			}
		}
	}
	return n
}

// Header makes an unsigned NEO 2 header.
func Header(index uint32, next helper.UInt160, salt uint32) *block.BlockHeader {
	h := &block.BlockHeader{Version: 0, Timestamp: 1500000000 + index, Index: index, ConsensusData: uint64(salt), NextConsensus: next}
	p := sha256.Sum256([]byte{byte(index), byte(index >> 8), 7})
	h.PrevHash, _ = helper.UInt256FromBytes(p[:])
	m := sha256.Sum256([]byte{byte(salt), 9})
	h.MerkleRoot, _ = helper.UInt256FromBytes(m[:])
	h.Witness = &tx.Witness{}
	return h
}

// HeaderMessage is what consensus nodes sign for a header.
func HeaderMessage(h *block.BlockHeader) []byte { return h.GetHashData() }

// RawHeader serialises a header with its witness.
func RawHeader(h *block.BlockHeader) []byte {
	bw := io.NewBufBinaryWriter()
	h.Serialize(bw.BinaryWriter)
	if bw.Err != nil {
		panic(bw.Err)
	}
	return bw.Bytes()
}

// StateRoot makes an unsigned state root message.
func StateRoot(index uint32, root [32]byte) *mpt.StateRoot {
	sr := &mpt.StateRoot{Version: 0, Index: index}
	p := sha256.Sum256([]byte{byte(index), 5})
	sr.PreHash = helper.BytesToHex(helper.ReverseBytes(p[:]))
	sr.StateRoot = helper.BytesToHex(helper.ReverseBytes(root[:]))
	return sr
}

// StateRootMessage is what consensus nodes sign for a state root.
func StateRootMessage(sr *mpt.StateRoot) []byte {
	bw := io.NewBufBinaryWriter()
	sr.SerializeUnsigned(bw.BinaryWriter)
	if bw.Err != nil {
		panic(bw.Err)
	}
	return bw.Bytes()
}

// RawStateRoot serialises the state root with its witness.
func RawStateRoot(sr *mpt.StateRoot) []byte {
	bw := io.NewBufBinaryWriter()
	sr.Serialize(bw.BinaryWriter)
	if bw.Err != nil {
		panic(bw.Err)
	}
	return bw.Bytes()
}
