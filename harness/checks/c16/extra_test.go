package c16

import (
	"testing"

	"verifharness/kit"
)

// extraWorkloads: tendermint / ontology / neo routers (added once their synthetic-data packages
// are stable).
func extraWorkloads(t *testing.T, r *kit.Run, round int) {}
