// C34: validator pool invariants across any sequence of node-governance operations and epochs.
package c34

import (
	"testing"

	"verifharness/govmodel"
	"verifharness/kit"
)

func TestC34(t *testing.T) {
	r := kit.Start(t, "C34", "exploration")
	defer r.Finish()
	r.Rule("random node-governance histories (register/unregister/approve/quit/black/white/commit by owners, validators, outsiders; heights advancing, " +
		"double commits in one block, commits without operator when due) over pools 4..maxN whose genesis peer indices are contiguous, gapped, offset, unordered or large and whose MaxBlockChangeView is 100, 1, 2 or 1000, a quarter of them with hostile key spellings " +
		"(upper/mixed-case hex, uncompressed encoding of the same key) in every node operation; plus nine directed spelling scenarios. After EVERY operation: " +
		">= 4 distinct active keys, no key (compared as decoded public key) in two entries, distinct keys <-> distinct indices, no successful registration of a blacklisted key; " +
		"at every view change: view+1, active -> consensus, quitting/black dropped, not twice at one height; pool == model pool. Distinct = (op kind, success, epoch, pool size, generator tag) and approval fingerprints")
	cfg := govmodel.Config{Property: "C34", Histories: r.N(260, 12000), Ops: r.N(80, 120), MinN: 4, MaxN: r.N(10, 25),
		Wt:         govmodel.Weights{Node: 6, SideChain: 1, Relayer: 0, Neo3: 0, SecondRound: 10},
		HostilePct: 25, Scripts: govmodel.HostileScripts(), ScriptReps: r.N(5, 80), RealSig: true}
	govmodel.Run(r, cfg)
	r.Require("epoch_changes", r.N(300, 4000))
	r.Require("effect@approveCandidate", r.N(100, 1500))
	r.Require("effect@blackNode", r.N(30, 400))
	r.Require("effect@whiteNode", r.N(8, 120))
	r.Require("ok@quitNode", r.N(100, 1500))
	r.Require("failed@quitNode", r.N(20, 300))
	r.Require("failed@blackNode", r.N(20, 300))
	r.Require("failed@commitDpos", r.N(30, 400))
	r.Require("register_of_non_blacklisted_ok", r.N(200, 3000))
	r.Require("failed@registerCandidate", r.N(50, 700))
	r.Require("calls_with_variant_spelling", r.N(200, 3000))
	for _, sh := range []string{"contiguous", "gapped", "offset", "unordered", "large"} {
		r.Require("histories_with_genesis_indices_"+sh, r.N(20, 300))
	}
	r.Require("hostile_histories", r.N(60, 900))
	r.Assume("identity of a public key = the key decoded by the ontology-crypto codec (so hex case and compressed/uncompressed encodings spell the same key)")
	r.Assume("'blacklisted' = a blacklisting took effect for the key and no white-listing since; in histories with hostile spellings the blacklist record observed in contract storage (under any spelling of the key) is used")
	r.Assume("an epoch change is also accepted as part of a blackNode that blacklists a consensus member (poly commits immediately); any other operation changing the view is flagged")
	r.Assume("genesis peer indices stay at least 1000 below 2^32 (initConfig accepts 2^32-1, after which the next candidate index wraps to 0; an operator-chosen genesis, not explored)")
	r.Assume("index stability (same key gets its old index back) is not demanded")
}
