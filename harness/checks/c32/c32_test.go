// C32: a validator-approved governance action takes effect exactly at the approval that brings the
// number of distinct approvers of that same (method, request) that are consensus validators now to
// ceil(2N/3), never earlier; approvals of another method or another request never count.
//
// Engine: verifharness/govmodel (reference model written from the property statements, compared
// with the real contracts after every operation).
package c32

import (
	"fmt"
	"testing"

	"verifharness/govmodel"
	"verifharness/kit"
)

func TestC32(t *testing.T) {
	r := kit.Start(t, "C32", "exploration")
	defer r.Finish()
	minN, maxN := 4, r.N(10, 25)
	r.Rule("histories over genesis pools of every size 4..maxN: (a) three directed 'threshold walks' per size (T-1 validators, then outsiders, owners, " +
		"non-consensus nodes, repeat approvers, approvals of the same id under other methods and of other ids under the same method by fresh validators, " +
		"then the remaining validators) for all 10 approval-gated methods; (b) random histories mixing requests, single approvals, full rounds with noise, " +
		"quits, blacklisting and epoch changes over the four governance contracts. Every operation is one evaluation; a case is distinct by " +
		"(method, #validators under both readings, approvals counted lower/upper under both readings, pending state, caller class, verdict class, observed effect)")
	cfg := govmodel.Config{Property: "C32", Histories: r.N(200, 10000), Ops: r.N(70, 110), MinN: minN, MaxN: maxN,
		Wt:      govmodel.Weights{Node: 2, SideChain: 2, Relayer: 1, Neo3: 1, SecondRound: 8},
		Scripts: govmodel.ThresholdScripts(), ScriptReps: r.N(14, 220), RealSig: true}
	govmodel.Run(r, cfg)

	for _, k := range govmodel.ApproveKinds() {
		r.Require("effect@"+k, r.N(10, 80))
		r.Require("below_threshold_no_effect@"+k, r.N(30, 300))
	}
	for n := minN; n <= maxN; n++ {
		r.Require(fmt.Sprintf("effect_with_N=%d", n), 3)
	}
	r.Require("approve_must_yes", r.N(200, 3000))
	r.Require("approve_mustnot_no", r.N(2000, 30000))
	r.Require("approvals_by_outsiders", r.N(500, 5000))
	r.Require("approvals_repeated", r.N(200, 2000))
	r.Require("epoch_changes", r.N(50, 500))
	r.Require("histories_completed", r.N(150, 2000))
	r.Assume("request identity = (approval method, id named by the approval); approvals given before the current incarnation of a request " +
		"(withdrawn and re-made candidacy, replaced update request, approvals while nothing was pending) count only in the upper bound: " +
		"an effect is demanded only when the approvals of the current incarnation suffice, forbidden only when even the upper bound does not")
	r.Assume("'consensus validators at that moment' is read both as 'pool members with consensus status' and as 'members in office since the last epoch change' " +
		"(a consensus member that asked to quit); verdicts are given only where both readings agree (DESIGN §8)")
	r.Assume("with a changing validator set the decisive approval is the first successful call by a consensus validator after which the threshold is met; " +
		"an effect triggered by a non-validator's call when the threshold is already met is recorded (effect_triggered_by_*), not judged")
	r.Assume("addresses are derived from public keys by poly's types.AddressFromPubKey; the ontology-crypto key codec is trusted")
}
