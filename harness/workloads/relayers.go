package workloads

import (
	"math/rand"

	"verifharness/kit"
	"verifharness/kit/nat"
	"verifharness/kit/pk"

	"github.com/polynetwork/poly/common"
	"github.com/polynetwork/poly/native/service/utils"
)

// Relayers: registration and removal requests of the relayer manager with the SAME request ids
// pending at the same time and validators' approvals interleaved between them, overlapping and
// partly stale address lists, second rounds on consumed ids.
func Relayers(r *kit.Run, rng *rand.Rand, pal *Palette) {
	vals := pk.NewKeys(rng, 4+rng.Intn(4))
	e := nat.New(3)
	e.Record = true
	if err := e.InitGovernance(vals); err != nil {
		r.Count("workload_setup_failed:relayers", 1)
		return
	}
	e.Height = 40
	rm := utils.RelayerManagerContractAddress
	who := pk.NewKeys(rng, 5)
	applicant := who[0]
	list := func(ks ...*pk.Key) []byte {
		sink := common.NewZeroCopySink(nil)
		sink.WriteVarUint(uint64(len(ks)))
		for _, k := range ks {
			sink.WriteVarBytes(k.Addr[:])
		}
		sink.WriteVarBytes(applicant.Addr[:])
		return sink.Bytes()
	}
	approve := func(method string, id uint64, v *pk.Key) *nat.CallRecord {
		s := common.NewZeroCopySink(nil)
		s.WriteVarUint(id)
		s.WriteVarBytes(v.Addr[:])
		return e.Call(rm, method, s.Bytes(), pk.Single(v))
	}
	// register #0 = [A,B], approved by everybody
	e.Call(rm, "registerRelayer", list(who[1], who[2]), pk.Single(applicant))
	for _, v := range vals {
		approve("approveRegisterRelayer", 0, v)
	}
	// register #1 = [C] and remove #0 = [A,B], remove #1 = [A,C] pending together; approvals interleaved
	e.Call(rm, "registerRelayer", list(who[3]), pk.Single(applicant))
	e.Call(rm, "RemoveRelayer", list(who[1], who[2]), pk.Single(applicant))
	e.Call(rm, "RemoveRelayer", list(who[1], who[3]), pk.Single(applicant))
	order := rng.Perm(len(vals))
	for _, i := range order {
		approve("approveRemoveRelayer", 1, vals[i])
		approve("approveRegisterRelayer", 1, vals[i])
		approve("approveRemoveRelayer", 0, vals[i])
	}
	// second rounds on consumed ids
	for _, v := range vals {
		approve("approveRemoveRelayer", 0, v)
		approve("approveRegisterRelayer", 0, v)
	}
	for _, rec := range e.Log {
		Track(r, rec.Ok, "relayers:"+rec.Method, len(rec.WriteSet), len(rec.Notify))
	}
	r.Count("router_workload:relayers", 1)
}
