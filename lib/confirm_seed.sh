#!/bin/bash
# confirm_seed.sh <seed-out-dir> <demo-package-dir-relative-to-repo> [extra pkgs...]
# Confirms a seeded change in a scratch worktree: patch applies, touched packages build, the tests
# of the touched packages that pass without the patch still pass with it, the demonstration
# passes without the patch and fails with it. Prints a one-line verdict; exit 0 = confirmed.
set -u
export GOFLAGS=-mod=mod GOPROXY=off GOSUMDB=off GOTOOLCHAIN=local
src=$(readlink -f "$1"); demopkg=$2; shift 2
wt=/var/tmp/confirm-$$
git -C /repo worktree add --detach -q "$wt" HEAD || exit 3
trap 'git -C /repo worktree remove --force "$wt" >/dev/null 2>&1' EXIT
cd "$wt"
if grep -q harmony-one/bls "$src/notes.md" 2>/dev/null || [ -n "${NEED_BLS:-}" ]; then
  echo 'replace github.com/harmony-one/bls => /var/tmp/seedkit/blsstub' >> go.mod
fi
pkgs=$(grep '^+++ b/' "$src/patch.diff" | sed 's|+++ b/||' | xargs -n1 dirname | sort -u | sed 's|^|./|')
pkgs="$pkgs $*"
passing() { go test -vet=off -count=1 -json $pkgs 2>/dev/null | python3 -c "
import json,sys
ok=set()
for l in sys.stdin:
    try: e=json.loads(l)
    except Exception: continue
    if e.get('Action')=='pass' and e.get('Test'): ok.add(e['Package']+'::'+e['Test'])
print('\n'.join(sorted(ok)))"; }
demos=$(find "$src" -name "*_test.go" | sort)
[ -z "$demos" ] && { echo "NO-DEMO-TEST in $src"; exit 5; }
passing > /tmp/confirm-$$.before
mkdir -p "$demopkg"
cp $demos "$demopkg/"
names=$(grep -ho '^func Test[A-Za-z0-9_]*' $demos | sed 's/func //' | paste -sd'|')
go test ${TAGS:+-tags $TAGS} -vet=off -count=1 -run "^($names)\$" "./$demopkg" > /tmp/confirm-$$.d0 2>&1; d0=$?
for f in $demos; do rm "$demopkg/$(basename $f)"; done
git apply "$src/patch.diff" || { echo "PATCH-DOES-NOT-APPLY"; exit 4; }
go build $pkgs > /tmp/confirm-$$.build 2>&1 || { echo "BUILD-FAILS-WITH-PATCH"; tail -5 /tmp/confirm-$$.build; exit 6; }
passing > /tmp/confirm-$$.after
cp $demos "$demopkg/"
go test ${TAGS:+-tags $TAGS} -vet=off -count=1 -run "^($names)\$" "./$demopkg" > /tmp/confirm-$$.d1 2>&1; d1=$?
lost=$(comm -23 /tmp/confirm-$$.before /tmp/confirm-$$.after | wc -l)
nb=$(wc -l < /tmp/confirm-$$.before)
echo "demo_without_patch_exit=$d0 demo_with_patch_exit=$d1 existing_tests_passing_before=$nb lost_with_patch=$lost"
if [ $d0 -ne 0 ]; then tail -15 /tmp/confirm-$$.d0; fi
if [ $d1 -eq 0 ]; then tail -5 /tmp/confirm-$$.d1; fi
rm -f /tmp/confirm-$$.*
[ $d0 -eq 0 ] && [ $d1 -ne 0 ] && [ "$lost" -eq 0 ] && { echo CONFIRMED; exit 0; }
echo NOT-CONFIRMED; exit 1
