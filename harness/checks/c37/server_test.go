package c37

import (
	"fmt"
	"os"
	"sync"
	"sync/atomic"
	"time"

	"github.com/ontio/ontology-crypto/keypair"
	"github.com/ontio/ontology-eventbus/actor"

	"verifharness/kit"
	"verifharness/kit/pk"

	pcom "github.com/polynetwork/poly/common"
	"github.com/polynetwork/poly/common/config"
	"github.com/polynetwork/poly/core/ledger"
	"github.com/polynetwork/poly/core/payload"
	"github.com/polynetwork/poly/core/types"
	perr "github.com/polynetwork/poly/errors"
	"github.com/polynetwork/poly/events/message"
	_ "github.com/polynetwork/poly/native/service"
	tc "github.com/polynetwork/poly/txnpool/common"
	"github.com/polynetwork/poly/txnpool/proc"
	vt "github.com/polynetwork/poly/validator/types"
)

// fakeSigned builds a transaction whose signature entry names pub (so the signing address is pub's
// address) with a dummy signature blob: the pool server itself never verifies signatures (the
// stateless validator does, and it is a stub here).
func fakeSigned(nonce uint32, tag byte, pub keypair.PublicKey) *types.Transaction {
	code := []byte{tag, byte(nonce), byte(nonce >> 8), byte(nonce >> 16), byte(nonce >> 24), 0xC3, 0x70}
	tx := &types.Transaction{Version: types.CURR_TX_VERSION, TxType: types.Invoke, Nonce: nonce,
		Payload: &payload.InvokeCode{Code: code},
		Sigs:    []types.Sig{{PubKeys: []keypair.PublicKey{pub}, M: 1, SigData: [][]byte{{1, 2, 3}}}}}
	sink := pcom.NewZeroCopySink(nil)
	if err := tx.Serialization(sink); err != nil {
		panic(err)
	}
	t, err := types.TransactionFromRawBytes(sink.Bytes())
	if err != nil {
		panic(err)
	}
	return t
}

func fakeSignedMany(n int, base uint32, tag byte, pubs []keypair.PublicKey) []*types.Transaction {
	out := make([]*types.Transaction, n)
	var wg sync.WaitGroup
	const W = 8
	for w := 0; w < W; w++ {
		wg.Add(1)
		go func(w int) {
			defer wg.Done()
			for i := w; i < n; i += W {
				out[i] = fakeSigned(base+uint32(i), tag, pubs[i%len(pubs)])
			}
		}(w)
	}
	wg.Wait()
	return out
}

// stubVal is a validator actor: answers every CheckTx with the configured height; the stateful one
// refuses the hashes listed in bad. While a gate is installed it blocks (a slow validator).
type stubVal struct {
	typ    vt.VerifyType
	height *uint32
	mu     sync.Mutex
	gate   chan struct{}
	bad    map[pcom.Uint256]bool
	seen   int64
}

func (v *stubVal) Receive(ctx actor.Context) {
	m, ok := ctx.Message().(*vt.CheckTx)
	if !ok {
		return
	}
	v.mu.Lock()
	g := v.gate
	v.mu.Unlock()
	if g != nil {
		<-g
	}
	atomic.AddInt64(&v.seen, 1)
	code := perr.ErrNoError
	if v.typ == vt.Stateful && v.bad[m.Tx.Hash()] {
		code = perr.ErrDuplicatedTx
	}
	if s := ctx.Sender(); s != nil {
		s.Tell(&vt.CheckResponse{WorkerId: m.WorkerId, Type: v.typ, Hash: m.Tx.Hash(),
			Height: atomic.LoadUint32(v.height), ErrCode: code})
	}
}

func (v *stubVal) close() {
	v.mu.Lock()
	v.gate = make(chan struct{})
	v.mu.Unlock()
}

func (v *stubVal) open() {
	v.mu.Lock()
	if v.gate != nil {
		close(v.gate)
		v.gate = nil
	}
	v.mu.Unlock()
}

type env struct {
	r                      *kit.Run
	s                      *proc.TXPoolServer
	txPid, poolPid, rspPid *actor.PID
	sl, sf                 *stubVal
	slPid, sfPid           *actor.PID
	height                 uint32
	noStop                 bool // race phases: see TestC37RaceServer
}

func spawn(a actor.Actor) *actor.PID {
	return actor.Spawn(actor.FromProducer(func() actor.Actor { return a }))
}

// newEnv wires the server exactly like txnpool.StartTxnPoolServer does (same constructors, same
// three actors), without the event-bus subscription; validators are the stubs.
func newEnv(r *kit.Run, bad map[pcom.Uint256]bool) *env {
	e := &env{r: r, height: 10}
	e.s = proc.NewTxPoolServer(tc.MAX_WORKER_NUM, true, true)
	e.rspPid = spawn(proc.NewVerifyRspActor(e.s))
	e.s.RegisterActor(tc.VerifyRspActor, e.rspPid)
	e.poolPid = spawn(proc.NewTxPoolActor(e.s))
	e.s.RegisterActor(tc.TxPoolActor, e.poolPid)
	e.txPid = spawn(proc.NewTxActor(e.s))
	e.s.RegisterActor(tc.TxActor, e.txPid)
	e.sl = &stubVal{typ: vt.Stateless, height: &e.height}
	e.sf = &stubVal{typ: vt.Stateful, height: &e.height, bad: bad}
	e.slPid = spawn(e.sl)
	e.sfPid = spawn(e.sf)
	e.rspPid.Tell(&vt.RegisterValidator{Sender: e.slPid, Type: vt.Stateless, Id: "stub-stateless"})
	e.rspPid.Tell(&vt.RegisterValidator{Sender: e.sfPid, Type: vt.Stateful, Id: "stub-stateful"})
	// registration is processed by the rsp actor's mailbox before any later response; make sure it
	// happened before the first transaction is dispatched by a worker
	time.Sleep(50 * time.Millisecond)
	return e
}

func (e *env) stop() {
	e.sl.open()
	e.sf.open()
	if e.noStop {
		return
	}
	e.slPid.Stop()
	e.sfPid.Stop()
	e.s.Stop()
}

func (e *env) submit(tx *types.Transaction, sender tc.SenderType, ch chan *tc.TxResult) {
	e.txPid.Tell(&tc.TxReq{Tx: tx, Sender: sender, TxResultCh: ch})
}

// syncTx / syncPool: a request-reply round trip; when it returns the actor has processed every
// message enqueued before it.
func (e *env) syncTx() bool {
	_, err := e.txPid.RequestFuture(&tc.GetTxnCountReq{}, 120*time.Second).Result()
	return err == nil
}

func (e *env) syncPool() bool {
	_, err := e.poolPid.RequestFuture(&tc.GetPendingTxnReq{}, 120*time.Second).Result()
	return err == nil
}

// quiesce waits until nothing is in flight. A timeout makes the run inconclusive (never a verdict).
func (e *env) quiesce(what string) bool {
	deadline := time.Now().Add(180 * time.Second)
	for time.Now().Before(deadline) {
		if !e.syncTx() || !e.syncPool() {
			break
		}
		c := e.s.VerifTxCount()
		if c[1] == 0 && e.s.VerifWorkerPending() == 0 {
			time.Sleep(2 * time.Millisecond)
			c = e.s.VerifTxCount()
			if c[1] == 0 && e.s.VerifWorkerPending() == 0 {
				return true
			}
		}
		time.Sleep(time.Millisecond)
	}
	e.r.Inconclusive("server did not quiesce: " + what)
	return false
}

func (e *env) poolSet() (map[pcom.Uint256]uint32, int) {
	es, _ := e.s.VerifPool().GetTxPool(false, 0)
	m := make(map[pcom.Uint256]uint32, len(es))
	dups := 0
	for _, x := range es {
		if _, ok := m[x.Tx.Hash()]; ok {
			dups++
		}
		_, h, _ := statefulHeight(x.Attrs)
		m[x.Tx.Hash()] = h
	}
	return m, dups
}

func (e *env) getTxPool(byCount bool, height uint32) ([]*tc.TXEntry, bool) {
	res, err := e.poolPid.RequestFuture(&tc.GetTxnPoolReq{ByCount: byCount, Height: height}, 120*time.Second).Result()
	if err != nil {
		return nil, false
	}
	rsp, ok := res.(*tc.GetTxnPoolRsp)
	if !ok {
		return nil, false
	}
	return rsp.TxnPool, true
}

func hashesOf(txs []*types.Transaction) map[pcom.Uint256]bool {
	m := make(map[pcom.Uint256]bool, len(txs))
	for _, t := range txs {
		m[t.Hash()] = true
	}
	return m
}

func diffSets(got map[pcom.Uint256]uint32, want map[pcom.Uint256]bool) (missing, extra int) {
	for h := range want {
		if _, ok := got[h]; !ok {
			missing++
		}
	}
	for h := range got {
		if !want[h] {
			extra++
		}
	}
	return
}

// serverScenarios drives a real TXPoolServer (workers + the three actors) against a real ledger
// (sender admission reads ledger.DefLedger) with stub validator actors.
func serverScenarios(r *kit.Run, race bool) {
	rng := r.Rand("server")
	vals := pk.NewKeys(rng, 4)
	outsider := pk.NewKey(rng)
	dir := pk.TempDir("c37")
	defer os.RemoveAll(dir)
	_, l, err := pk.OpenLedger(dir, 37, vals)
	if err != nil {
		r.Inconclusive("ledger: " + err.Error())
		return
	}
	old := ledger.DefLedger
	ledger.DefLedger = l
	proc.VerifResetPermitted()
	defer func() { ledger.DefLedger = old; l.Close() }()
	r.Assume("validator actors are stubs (always-valid stateless; stateful answers with a scripted height / refusal list); the server, its workers and its three actors are the real ones, wired as in txnpool.StartTxnPoolServer")
	pubs := pk.Pubs(vals)
	// premise of every scenario: the ledger's genesis state makes the validators permitted senders
	if err := proc.VerifUpdatePermitted(true); err != nil {
		r.Inconclusive("premise: permitted-address refresh failed: " + err.Error())
		return
	}
	if err := proc.VerifIsValidSender(fakeSigned(1, 0, pubs[0])); err != nil {
		r.Inconclusive("premise: validator-signed tx not admitted: " + err.Error())
		return
	}
	savedMax := config.DefConfig.Consensus.MaxTxInBlock
	defer func() { config.DefConfig.Consensus.MaxTxInBlock = savedMax }()

	rounds := r.N(6, 60)
	if race {
		rounds = r.N(2, 10)
	}
	for round := 0; round < rounds; round++ {
		scenarioFunctional(r, round, pubs, outsider.Pub, race)
	}
	if !race {
		scenarioCapacity(r, pubs)
	}
}

func scenarioFunctional(r *kit.Run, round int, pubs []keypair.PublicKey, outsider keypair.PublicKey, race bool) {
	rng := r.Rand(fmt.Sprintf("server-round-%d", round))
	M := 150 + rng.Intn(200)
	base := uint32(round) << 20
	good := fakeSignedMany(M, base, 1, pubs)
	foreign := fakeSignedMany(20, base+100000, 2, []keypair.PublicKey{outsider})
	badTxs := fakeSignedMany(20, base+200000, 3, pubs)
	bad := hashesOf(badTxs)
	e := newEnv(r, bad)
	e.noStop = race
	defer e.stop()
	config.DefConfig.Consensus.MaxTxInBlock = 7
	r.Eval(1)
	r.Distinct("server-functional", M, round)

	// --- concurrent submission with duplicates, foreign senders and refused transactions
	type sub struct {
		tx     *types.Transaction
		sender tc.SenderType
		ch     chan *tc.TxResult
		class  string
	}
	var subs []*sub
	add := func(tx *types.Transaction, class string) {
		n := 1 + rng.Intn(3)
		for i := 0; i < n; i++ {
			s := &sub{tx: tx, sender: tc.NetSender, class: class}
			if rng.Intn(2) == 0 {
				s.sender = tc.HttpSender
				s.ch = make(chan *tc.TxResult, 1)
			}
			subs = append(subs, s)
		}
	}
	for _, t := range good {
		add(t, "good")
	}
	for _, t := range foreign {
		add(t, "foreign")
	}
	for _, t := range badTxs {
		add(t, "bad")
	}
	rng.Shuffle(len(subs), func(i, j int) { subs[i], subs[j] = subs[j], subs[i] })
	var wg sync.WaitGroup
	const W = 4
	for w := 0; w < W; w++ {
		wg.Add(1)
		go func(w int) {
			defer wg.Done()
			for i := w; i < len(subs); i += W {
				e.submit(subs[i].tx, subs[i].sender, subs[i].ch)
			}
		}(w)
	}
	// monitor: the pool never exceeds its capacity while this runs (trivially small here; the
	// capacity scenario stresses it)
	wg.Wait()
	r.Count("server_submissions", len(subs))
	if !e.quiesce("after submissions") {
		return
	}
	got, dups := e.poolSet()
	missing, extra := diffSets(got, hashesOf(good))
	if dups > 0 || missing > 0 || extra > 0 {
		r.Violation("server:pool-content-after-submissions",
			fmt.Sprintf("after %d submissions of %d valid + 20 unregistered-sender + 20 refused txs the pool has %d entries: %d duplicates, %d valid missing, %d that must not be there", len(subs), M, len(got), dups, missing, extra),
			map[string]interface{}{"round": round, "M": M})
	} else {
		r.Count("server_pool_exact_after_submissions", 1)
	}
	for _, s := range subs {
		if s.ch == nil {
			continue
		}
		select {
		case res := <-s.ch:
			r.Count("server_http_result_"+s.class+"_"+fmt.Sprint(int(res.Err)), 1)
			if s.class != "good" && res.Err == perr.ErrNoError {
				r.Violation("server:refused-tx-reported-ok", "an "+s.class+" transaction was reported accepted", map[string]interface{}{"round": round, "class": s.class})
			}
		default:
			if s.class == "good" {
				// a duplicate http submission may get no answer only if ... never: every http
				// submission of a valid tx is answered (accepted or duplicate)
				r.Count("server_http_unanswered_good", 1)
			}
		}
	}

	// --- hand-out to consensus at the current height
	ents, ok := e.getTxPool(true, 10)
	if !ok {
		r.Inconclusive("GetTxnPoolReq timed out")
		return
	}
	seen := map[pcom.Uint256]bool{}
	for _, x := range ents {
		_, h, _ := statefulHeight(x.Attrs)
		if h < 10 || seen[x.Tx.Hash()] || !hashesOf(good)[x.Tx.Hash()] {
			r.Violation("server:gettxpool-bad-entry", fmt.Sprintf("entry height %d (requested 10), duplicate=%v", h, seen[x.Tx.Hash()]), map[string]interface{}{"round": round})
		}
		seen[x.Tx.Hash()] = true
	}
	if len(ents) > 7 {
		r.Violation("server:gettxpool-over-limit", fmt.Sprintf("%d entries handed out, MaxTxInBlock=7", len(ents)), map[string]interface{}{"round": round})
	} else if len(ents) == 7 {
		r.Count("server_gettxpool_at_limit", 1)
	}

	// --- the chain advances: everything in the pool is old and must be re-verified, none lost
	atomic.StoreUint32(&e.height, 12)
	ents, ok = e.getTxPool(true, 12)
	if !ok {
		r.Inconclusive("GetTxnPoolReq timed out")
		return
	}
	for _, x := range ents {
		if _, h, _ := statefulHeight(x.Attrs); h < 12 {
			r.Violation("server:gettxpool-bad-entry", fmt.Sprintf("entry height %d handed out for requested height 12", h), map[string]interface{}{"round": round})
		}
	}
	if !e.quiesce("after re-verification") {
		return
	}
	got, dups = e.poolSet()
	missing, extra = diffSets(got, hashesOf(good))
	stale := 0
	for _, h := range got {
		if h < 12 {
			stale++
		}
	}
	if dups > 0 || missing > 0 || extra > 0 || stale > 0 {
		r.Violation("server:reverify-lost-or-stale",
			fmt.Sprintf("after re-verification at height 12: %d entries, %d duplicates, %d lost, %d extra, %d still at the old height", len(got), dups, missing, extra, stale),
			map[string]interface{}{"round": round, "M": M})
	} else {
		r.Count("server_reverified_all", 1)
	}

	// --- one hash is never held twice: same tx submitted three times while the validators are slow
	e.sl.close()
	probe := fakeSignedMany(5, base+300000, 4, pubs)
	for _, t := range probe {
		for i := 0; i < 3; i++ {
			e.submit(t, tc.NetSender, nil)
		}
	}
	if !e.syncTx() {
		r.Inconclusive("tx actor sync timed out")
		return
	}
	// let the workers pick the transactions up
	for i := 0; i < 2000 && e.s.VerifWorkerPending() < len(probe); i++ {
		time.Sleep(time.Millisecond)
	}
	pend := e.s.VerifPending()
	ph := map[pcom.Uint256]int{}
	for _, h := range pend {
		ph[h]++
	}
	wp := e.s.VerifWorkerPending()
	if len(pend) != len(probe) || len(ph) != len(probe) || wp != len(probe) {
		r.Violation("server:hash-held-twice-while-pending",
			fmt.Sprintf("5 distinct txs submitted 3x each while validators are slow: server pending list %d (distinct %d), workers hold %d", len(pend), len(ph), wp),
			map[string]interface{}{"round": round})
	} else {
		r.Count("server_pending_once", 1)
	}
	e.sl.open()
	if !e.quiesce("after probe") {
		return
	}
	want := hashesOf(append(append([]*types.Transaction{}, good...), probe...))
	got, dups = e.poolSet()
	missing, extra = diffSets(got, want)
	if dups > 0 || missing > 0 || extra > 0 {
		r.Violation("server:pool-content-after-duplicate-burst", fmt.Sprintf("%d dups %d missing %d extra", dups, missing, extra), map[string]interface{}{"round": round})
	}

	// --- block verification request from consensus: pooled + unseen txs
	unseen := fakeSignedMany(6, base+400000, 5, pubs)
	blockTxs := append(append([]*types.Transaction{}, good[:6]...), unseen...)
	res, err := e.poolPid.RequestFuture(&tc.VerifyBlockReq{Height: 12, Txs: blockTxs}, 120*time.Second).Result()
	if err != nil {
		r.Inconclusive("VerifyBlockReq timed out")
		return
	}
	if rsp, ok := res.(*tc.VerifyBlockRsp); ok {
		inBlock := hashesOf(blockTxs)
		for _, v := range rsp.TxnPool {
			if !inBlock[v.Tx.Hash()] {
				r.Violation("server:verifyblock-foreign-result", "result for a tx that is not in the block", map[string]interface{}{"round": round})
			}
			if v.ErrCode == perr.ErrNoError && v.Height < 12 {
				r.Violation("server:verifyblock-stale-height", fmt.Sprintf("tx reported verified at %d for block height 12", v.Height), map[string]interface{}{"round": round})
			}
		}
		r.Count("server_verifyblock_results", len(rsp.TxnPool))
	}
	if !e.quiesce("after verify block") {
		return
	}

	// --- a block is committed while new transactions keep arriving: exactly its txs leave the pool
	before, _ := e.poolSet()
	never := fakeSignedMany(5, base+500000, 6, pubs)
	committed := append(append(append([]*types.Transaction{}, good[3:40]...), unseen[:3]...), never...)
	late := fakeSignedMany(40, base+600000, 7, pubs)
	var wg2 sync.WaitGroup
	for w := 0; w < 2; w++ {
		wg2.Add(1)
		go func(w int) {
			defer wg2.Done()
			for i := w; i < len(late); i += 2 {
				e.submit(late[i], tc.NetSender, nil)
			}
		}(w)
	}
	e.poolPid.Tell(&message.SaveBlockCompleteMsg{Block: &types.Block{Header: &types.Header{Height: 12}, Transactions: committed}})
	wg2.Wait()
	if !e.quiesce("after block commit") {
		return
	}
	wantAfter := map[pcom.Uint256]bool{}
	for h := range before {
		wantAfter[h] = true
	}
	for _, t := range late {
		wantAfter[t.Hash()] = true
	}
	for _, t := range committed {
		delete(wantAfter, t.Hash())
	}
	got, dups = e.poolSet()
	missing, extra = diffSets(got, wantAfter)
	if dups > 0 || missing > 0 || extra > 0 {
		r.Violation("server:block-cleanup-mismatch",
			fmt.Sprintf("block of %d txs committed over a pool of %d while 40 new txs arrived: %d entries left, %d that should have stayed are gone, %d that should be gone (or were never admitted) are present", len(committed), len(before), len(got), missing, extra),
			map[string]interface{}{"round": round})
	} else {
		r.Count("server_block_cleanup_exact", 1)
	}
	if n := e.s.VerifPool().GetTransactionCount(); n > tc.MAX_CAPACITY {
		r.Violation("server:pool-exceeds-capacity", fmt.Sprintf("%d > %d", n, tc.MAX_CAPACITY), nil)
	}
	r.Sample(map[string]interface{}{"scenario": "functional", "round": round, "valid": M, "submissions": len(subs), "pool_after_commit": len(got)})
}

// scenarioCapacity: the pool is filled through the real submission path to MAX_CAPACITY-1, then a
// burst arrives while the validators are slow (gated), then the validators answer.
func scenarioCapacity(r *kit.Run, pubs []keypair.PublicKey) {
	e := newEnv(r, nil)
	defer e.stop()
	config.DefConfig.Consensus.MaxTxInBlock = 60000
	fill := tc.MAX_CAPACITY - 1
	burst := 2000
	t0 := time.Now()
	txs := fakeSignedMany(fill+burst+200, 1<<28, 9, pubs)
	tBuild := time.Since(t0)
	t0 = time.Now()
	var wg sync.WaitGroup
	const W = 4
	maxSeen := int64(0)
	stopMon := make(chan struct{})
	monDone := make(chan struct{})
	go func() {
		defer close(monDone)
		for {
			select {
			case <-stopMon:
				return
			default:
			}
			if n := int64(e.s.VerifPool().GetTransactionCount()); n > atomic.LoadInt64(&maxSeen) {
				atomic.StoreInt64(&maxSeen, n)
			}
			time.Sleep(200 * time.Microsecond)
		}
	}()
	for w := 0; w < W; w++ {
		wg.Add(1)
		go func(w int) {
			defer wg.Done()
			for i := w; i < fill; i += W {
				e.submit(txs[i], tc.NetSender, nil)
			}
		}(w)
	}
	wg.Wait()
	if !e.quiesce("capacity fill") {
		close(stopMon)
		<-monDone
		return
	}
	n0 := e.s.VerifPool().GetTransactionCount()
	r.Count("server_capacity_fill_ms", int(time.Since(t0)/time.Millisecond))
	r.Count("server_capacity_build_ms", int(tBuild/time.Millisecond))
	r.Count("server_capacity_pool_after_fill", n0)
	r.Eval(1)
	r.Distinct("server-capacity", fill, burst)
	if n0 != fill {
		// the fill itself went through admission concurrently; it may legitimately stop short only
		// if admission refused some: then the premise of the burst is not met
		r.Inconclusive(fmt.Sprintf("capacity scenario: pool holds %d after submitting %d distinct valid txs", n0, fill))
		close(stopMon)
		<-monDone
		return
	}
	// burst while validators are slow
	e.sl.close()
	for i := fill; i < fill+burst; i++ {
		e.submit(txs[i], tc.NetSender, nil)
	}
	if !e.syncTx() {
		r.Inconclusive("tx actor sync timed out")
	}
	inflight := int(e.s.VerifTxCount()[1])
	r.Count("server_capacity_inflight_admitted", inflight)
	e.sl.open()
	ok := e.quiesce("capacity burst")
	close(stopMon)
	<-monDone
	if !ok {
		return
	}
	n1 := e.s.VerifPool().GetTransactionCount()
	r.Count("server_capacity_pool_after_burst", n1)
	r.Count("server_capacity_max_observed", int(atomic.LoadInt64(&maxSeen)))
	r.Sample(map[string]interface{}{"scenario": "capacity", "MAX_CAPACITY": tc.MAX_CAPACITY, "pool_after_fill": n0, "burst": burst, "admitted_in_flight": inflight, "pool_after_burst": n1})
	if n1 > tc.MAX_CAPACITY {
		r.Violation("server:pool-exceeds-capacity-inflight-admission",
			fmt.Sprintf("pool filled to %d (MAX_CAPACITY %d) through the tx actor; a burst of %d further valid txs arrived while the validators were slow: all %d passed the admission check (it compares the count of already verified txs only) and the pool ended at %d entries", n0, tc.MAX_CAPACITY, burst, inflight, n1),
			map[string]interface{}{"fill": n0, "burst": burst, "inflight": inflight, "final": n1, "MAX_CAPACITY": tc.MAX_CAPACITY})
	} else {
		r.Count("server_capacity_respected_after_burst", 1)
		// after the burst the pool is full: one more submission must be refused
		ch := make(chan *tc.TxResult, 1)
		e.submit(txs[fill+burst], tc.HttpSender, ch)
		e.syncTx()
		select {
		case res := <-ch:
			if res.Err == perr.ErrTxPoolFull {
				r.Count("server_capacity_full_refusal", 1)
			}
		default:
		}
	}
	// consensus block verification at (or above) capacity: unseen block txs are verified and pooled
	extra := txs[fill+burst+1 : fill+burst+101]
	_, err := e.poolPid.RequestFuture(&tc.VerifyBlockReq{Height: 10, Txs: extra}, 120*time.Second).Result()
	if err != nil {
		r.Inconclusive("VerifyBlockReq timed out")
		return
	}
	if !e.quiesce("capacity verify block") {
		return
	}
	n2 := e.s.VerifPool().GetTransactionCount()
	r.Count("server_capacity_pool_after_block_verify", n2)
	if n2 > tc.MAX_CAPACITY && n2 > n1 {
		r.Violation("server:pool-exceeds-capacity-block-verify",
			fmt.Sprintf("pool at %d (MAX_CAPACITY %d); a VerifyBlockReq with 100 unseen txs grew it to %d (block transactions are pooled without any capacity check)", n1, tc.MAX_CAPACITY, n2),
			map[string]interface{}{"before": n1, "after": n2, "MAX_CAPACITY": tc.MAX_CAPACITY})
	}
}
