package c17

import (
	"crypto/sha256"
	"fmt"
	"reflect"
	"runtime"
	"sort"
	"strings"

	"verifharness/kit"
	"verifharness/kit/nat"

	"github.com/btcsuite/btcd/chaincfg/chainhash"
	"github.com/polynetwork/poly/common"
	"github.com/polynetwork/poly/native"
	scom "github.com/polynetwork/poly/native/service/cross_chain_manager/common"
	nm "github.com/polynetwork/poly/native/service/governance/node_manager"
	scm "github.com/polynetwork/poly/native/service/governance/side_chain_manager"
	hsbsc "github.com/polynetwork/poly/native/service/header_sync/bsc"
	hsbtc "github.com/polynetwork/poly/native/service/header_sync/btc"
	hsbytom "github.com/polynetwork/poly/native/service/header_sync/bytom"
	hscosmos "github.com/polynetwork/poly/native/service/header_sync/cosmos"
	hseth "github.com/polynetwork/poly/native/service/header_sync/eth"
	hsheco "github.com/polynetwork/poly/native/service/header_sync/heco"
	hshsc "github.com/polynetwork/poly/native/service/header_sync/hsc"
	hsmsc "github.com/polynetwork/poly/native/service/header_sync/msc"
	hsokex "github.com/polynetwork/poly/native/service/header_sync/okex"
	hsont "github.com/polynetwork/poly/native/service/header_sync/ont"
	hspixie "github.com/polynetwork/poly/native/service/header_sync/pixiechain"
	hspolygon "github.com/polynetwork/poly/native/service/header_sync/polygon"
	hsstar "github.com/polynetwork/poly/native/service/header_sync/starcoin"
	hszil "github.com/polynetwork/poly/native/service/header_sync/zilliqa"
	hszill "github.com/polynetwork/poly/native/service/header_sync/zilliqalegacy"
	"github.com/polynetwork/poly/native/service/utils"
)

// accessors: exported read accessors of the native contracts whose parameters identify a record.
// Every parameter of every accessor is a key component by its documented meaning (chain id,
// height, hash, view, redeem key, ...). Not listed: eth/starcoin GetHeaderByHeight and zilliqa(legacy)
// GetTxHeaderByHeight, which compare the height with the current height before building any
// height-dependent key (on an empty state the height never reaches a key).
var accessors = []interface{}{
	scm.GetSideChain, scm.GetContractBind, scm.GetBtcTxParam, scm.GetBtcRedeemScriptBytes, scm.GetAssetBind,
	scm.GetFee, scm.GetFeeInfo, scm.GetRippleExtraInfo,
	nm.GetPeerApply, nm.GetPeerPoolMap,
	hseth.GetCurrentHeaderHeight, hseth.GetHeaderByHash, hseth.IsHeaderExist,
	hsstar.GetCurrentHeaderHeight, hsstar.GetHeaderByHash, hsstar.IsHeaderExist, hsstar.GetGenesisBlockHeader,
	hsbtc.GetBlockHashByHeight, hsbtc.GetHeaderByHash, hsbtc.GetHeaderByHeight, hsbtc.GetBestBlockHeader,
	hsbsc.GetCanonicalHeight, hsbsc.GetCanonicalHeader, hsheco.GetCanonicalHeight, hsheco.GetCanonicalHeader,
	hshsc.GetCanonicalHeight, hshsc.GetCanonicalHeader, hsmsc.GetCanonicalHeight, hsmsc.GetCanonicalHeader,
	hspixie.GetCanonicalHeight, hspixie.GetCanonicalHeader, hsbytom.GetCanonicalHeight, hsbytom.GetCanonicalHeader,
	hspolygon.GetCanonicalHeight, hspolygon.GetCanonicalHeader, hspolygon.GetEpochSwitchInfo,
	hscosmos.GetEpochSwitchInfo, hsokex.GetEpochSwitchInfo,
	hsont.GetCrossChainMsg, hsont.GetHeaderByHeight, hsont.GetHeaderByHash, hsont.GetKeyHeights,
	hszil.IsHeaderExist, hszil.GetTxHeaderByHash, hszil.GetCurrentTxHeader, hszil.GetCurrentTxHeaderHeight, hszil.GetDsHeaderByHash,
	scom.CheckDoneTx, scom.CheckIfChainBlacked,
	hszill.IsHeaderExist, hszill.GetTxHeaderByHash, hszill.GetCurrentTxHeader, hszill.GetCurrentTxHeaderHeight, hszill.GetDsHeaderByHash,
}

var svcType = reflect.TypeOf((*native.NativeService)(nil))

// values: a base value (index 0) and variants that differ from it, for every supported parameter
// type. Byte strings include the shapes a careless key derivation confuses: the hash of a long
// value, its truncation to 32 / 20 bytes, a trailing zero byte.
func valuesFor(t reflect.Type) ([]reflect.Value, bool) {
	long := []byte("0123456789abcdefghijklmnopqrstuvwxyzABCD") // 40 bytes
	h := sha256.Sum256(long)
	var out []reflect.Value
	switch {
	case t.Kind() == reflect.Uint64:
		for _, v := range []uint64{2, 3, 0x0102030405060708, 2 << 32, 2 + 1<<32, 2 + 1<<56, 2 + 1<<16} {
			out = append(out, reflect.ValueOf(v).Convert(t))
		}
	case t.Kind() == reflect.Uint32:
		for _, v := range []uint32{7, 9, 0x01020304, 7 << 16, 7 + 1<<16, 7 + 1<<24, 7 + 1<<8} {
			out = append(out, reflect.ValueOf(v).Convert(t))
		}
	case t.Kind() == reflect.String:
		for _, v := range []string{"02aa11", "03bb22", "02aa1100"} {
			out = append(out, reflect.ValueOf(v).Convert(t))
		}
	case t == reflect.TypeOf([]byte(nil)):
		for _, v := range [][]byte{long, []byte("another value of the same length, 40 b.."), append(append([]byte{}, long...), 0), h[:], long[:32], long[:20], {0xa1, 0xa2, 0xa3}} {
			out = append(out, reflect.ValueOf(v))
		}
	case t == reflect.TypeOf(common.Uint256{}):
		for _, v := range []common.Uint256{{1}, {2}, {1, 0, 0, 1}} {
			out = append(out, reflect.ValueOf(v))
		}
	case t == reflect.TypeOf(common.Address{}):
		for _, v := range []common.Address{{1}, {2}, {1, 0, 0, 1}} {
			out = append(out, reflect.ValueOf(v))
		}
	case t == reflect.TypeOf(chainhash.Hash{}):
		for _, v := range []chainhash.Hash{{1}, {2}, {1, 0, 0, 1}} {
			out = append(out, reflect.ValueOf(v))
		}
	default:
		return nil, false
	}
	return out, true
}

// accessorPart: for every accessor and every parameter position, two calls that differ only in
// that parameter must not build exactly the same storage keys.
func accessorPart(r *kit.Run) {
	e := nat.New(3)
	svc := e.Service()
	var keys []string
	prev := utils.VerifConcatKeyHook
	utils.VerifConcatKeyHook = func(contract common.Address, parts [][]byte, result []byte) {
		keys = append(keys, string(result))
	}
	defer func() { utils.VerifConcatKeyHook = prev }()
	call := func(fn reflect.Value, args []reflect.Value) (out []string, panicked interface{}) {
		keys = nil
		panicked = kit.Catch(func() { fn.Call(args) })
		out = append([]string{}, keys...)
		sort.Strings(out)
		return
	}
	for _, f := range accessors {
		fn := reflect.ValueOf(f)
		ft := fn.Type()
		name := runtime.FuncForPC(fn.Pointer()).Name()
		name = strings.TrimPrefix(name, "github.com/polynetwork/poly/native/service/")
		if ft.NumIn() == 0 || ft.In(0) != svcType {
			r.Inconclusive("accessor table: " + name + " does not take a NativeService first")
			return
		}
		base := []reflect.Value{reflect.ValueOf(svc)}
		ok := true
		for i := 1; i < ft.NumIn(); i++ {
			vs, sup := valuesFor(ft.In(i))
			if !sup {
				ok = false
				break
			}
			base = append(base, vs[0])
		}
		if !ok {
			r.Count("accessors_skipped_unsupported_parameter_type", 1)
			continue
		}
		r.Count("accessors_probed", 1)
		k0, p0 := call(fn, base)
		if p0 != nil {
			r.Count("accessor_panicked_on_empty_state", 1)
			continue
		}
		if len(k0) == 0 {
			r.Count("accessors_building_no_key_on_empty_state", 1)
			continue
		}
		for i := 1; i < ft.NumIn(); i++ {
			vs, _ := valuesFor(ft.In(i))
			for variant := 1; variant < len(vs); variant++ {
				args := append([]reflect.Value{}, base...)
				args[i] = vs[variant]
				ki, pi := call(fn, args)
				r.Eval(1)
				r.Distinct("accessor", name, i, variant)
				if pi != nil || len(ki) == 0 {
					continue
				}
				if strings.Join(ki, "|") == strings.Join(k0, "|") {
					r.Violation(fmt.Sprintf("accessor-ignores-key-parameter:%s#%d", name, i),
						fmt.Sprintf("%s: two calls that differ only in parameter %d (%v vs %v) address exactly the same storage keys, so records that differ in that parameter share a key",
							name, i, base[i].Interface(), args[i].Interface()),
						map[string]interface{}{"accessor": name, "parameter": i, "keys": fmt.Sprintf("%x", k0)})
				} else {
					r.Count("accessor_parameter_changes_key", 1)
				}
			}
		}
	}
}
