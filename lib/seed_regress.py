#!/usr/bin/env python3
"""seed_regress.py [--jobs N] [names...] — apply every kept seeded change (seeded/<name>/patch.diff) to a
scratch worktree of /repo HEAD and run its property's quick check against it; every one must be
caught (exit 1 with a VIOLATION line). Prints one line per seed and a summary."""
import json, os, subprocess, sys, concurrent.futures as cf
V = os.path.dirname(os.path.dirname(os.path.abspath(__file__)))
args = sys.argv[1:]; jobs = 3; names = []
i = 0
while i < len(args):
    if args[i] == "--jobs": jobs = int(args[i + 1]); i += 2
    else: names.append(args[i]); i += 1
d = os.path.join(V, "seeded")
names = names or sorted(os.listdir(d))
def run(name):
    m = json.load(open(os.path.join(d, name, "meta.json")))
    checks = m["checks_run"]["checks"]
    p = subprocess.run([os.path.join(V, "lib", "try_seed.sh"), os.path.join(d, name, "patch.diff")] + checks, stdout=subprocess.PIPE, stderr=subprocess.STDOUT)
    out = p.stdout.decode(errors="replace")
    caught = any(("== %s exit=1" % c) in out for c in checks)
    keys = sorted(set(l.split("what=")[0].split("key=")[1].strip() for l in out.splitlines() if "key=" in l))[:3]
    return name, caught, keys, out
missed = []
with cf.ThreadPoolExecutor(jobs) as ex:
    for name, caught, keys, out in ex.map(run, names):
        print("%-8s %s %s" % (name, "caught" if caught else "MISSED", "; ".join(keys)), flush=True)
        if not caught:
            missed.append(name)
            print("\n".join(out.splitlines()[-6:]))
print("seeds=%d missed=%d %s" % (len(names), len(missed), " ".join(missed)))
sys.exit(1 if missed else 0)
