package c23

import (
	"fmt"
	"math/big"
	"math/rand"

	"verifharness/kit"
	es "verifharness/synth/ethsynth"

	"github.com/polynetwork/poly/native/service/utils"
)

// runReorg: deposits against ORPHANED blocks at every height relative to the head, after the light
// client reorganised from a long light chain A onto a SHORTER but heavier fork B.
//
//	eth:  A = slow blocks (gaps >= 900 s: difficulty falls 99/2048 per block), B = fast blocks (gaps 1-8 s)
//	PoSA: A = out-of-turn seals (difficulty 1), B = in-turn seals (difficulty 2)
//
// A blocks commit to state SA (deposits only in SA), B blocks to state SB (deposits only in SB). After
// the reorganisation the head is B's tip at height M, below A's old tip N. Expected verdicts follow
// from the property alone: a proof against SA is never acceptable any more (no A block is canonical),
// at heights <= M, at M+1..N (above the head, where A blocks used to be canonical) and above N;
// a proof against SB is acceptable exactly with BlocksToWait confirmations.
func runReorg(r *kit.Run, rng *rand.Rand, e *es.Env, name string, chainID, w uint64) {
	var ccmc es.Addr
	rng.Read(ccmc[:])
	st0 := es.NewState(rng, ccmc, 5+rng.Intn(10))
	type dep struct {
		slot es.Hash
		msg  []byte
	}
	mk := func(st *es.State, n int) []dep {
		var ds []dep
		for i := 0; i < n; i++ {
			d := dep{es.RandHash(rng), es.RandTxParam(rng, targetChain).Serialize()}
			st.Commit(ccmc, d.slot, d.msg)
			ds = append(ds, d)
		}
		return ds
	}
	stA, stB := st0.Clone(), st0.Clone()
	depsA, depsB := mk(stA, 40), mk(stB, 12)
	root0, rootA, rootB := st0.Root(), stA.Root(), stB.Root()

	// ---- chain builder: next(parentIdx, stateRoot, heavy) -> idx
	type nd struct {
		eth    *es.Hdr
		posa   *es.PNode
		td     *big.Int
		number uint64
	}
	var nodes []nd
	var next func(parent int, sr es.Hash, heavy bool) (int, bool)
	var g uint64
	if name == "eth" {
		if err := e.RegisterSideChain(chainID, utils.ETH_ROUTER, name, w, ccmc[:], nil); err != nil {
			r.Inconclusive("register: " + err.Error())
			return
		}
		forks := es.ForksFor(e.NetID)
		g = []uint64{12000000, 10499390, 10600000}[rng.Intn(3)]
		root := es.NewRoot(rng, forks, g, big.NewInt(1000000000000+rng.Int63n(1000000000000)), 12000000)
		if rec := e.SyncGenesis(chainID, root.JSON()); !rec.Ok {
			r.Inconclusive("genesis: " + rec.Err)
			return
		}
		nodes = append(nodes, nd{eth: root, td: new(big.Int).Set(root.Difficulty), number: g})
		next = func(parent int, sr es.Hash, heavy bool) (int, bool) {
			o := es.ChildOpt{Root: &sr, Dt: uint64(900 + rng.Intn(1500)), Uncles: 1}
			if heavy {
				o = es.ChildOpt{Root: &sr, Dt: uint64(1 + rng.Intn(8))}
			}
			h := es.Child(rng, forks, nodes[parent].eth, o)
			if rec := e.SyncHeaders(chainID, h.JSON()); !rec.Ok {
				r.Inconclusive("sync header: " + rec.Err)
				return 0, false
			}
			nodes = append(nodes, nd{eth: h, td: new(big.Int).Add(nodes[parent].td, h.Difficulty), number: h.Number})
			return len(nodes) - 1, true
		}
	} else {
		f := flavorOf(name)
		v := 3 + rng.Intn(3)
		c, gen := es.NewPoSAChain(rng, f, sealChainID, v, v, v, 6000000)
		if err := e.RegisterSideChain(chainID, f.Router, name, w, ccmc[:], f.ExtraInfoJSONEpoch(sealChainID, c.Epoch)); err != nil {
			r.Inconclusive("register: " + err.Error())
			return
		}
		if rec := e.SyncGenesis(chainID, gen); !rec.Ok {
			r.Inconclusive("genesis: " + rec.Err)
			return
		}
		g = c.M.Root.H.Number
		nodes = append(nodes, nd{posa: c.M.Root, td: c.M.Root.TD, number: g})
		next = func(parent int, sr es.Hash, heavy bool) (int, bool) {
			p := nodes[parent].posa
			o := es.HonestOpt{Root: &sr}
			in := c.M.InTurn(p)
			var pick *es.Addr
			for _, a := range c.M.Eligible(p, c.Keys) {
				a := a
				if heavy == (a == in) {
					pick = &a
					break
				}
			}
			o.Sealer = pick // nil = whoever the simulator chooses
			h := c.Next(rng, p, o)
			if h == nil {
				r.Inconclusive("no eligible sealer")
				return 0, false
			}
			if rec := e.SyncHeaders(chainID, h.JSON()); !rec.Ok {
				r.Inconclusive("sync header: " + rec.Err)
				return 0, false
			}
			n := c.M.Add(p, h)
			nodes = append(nodes, nd{posa: n, td: n.TD, number: h.Number})
			return len(nodes) - 1, true
		}
	}
	// ---- prefix, chain A
	cur := 0
	var ok bool
	for i := 0; i < 1+rng.Intn(2); i++ {
		if cur, ok = next(cur, root0, rng.Intn(2) == 0); !ok {
			return
		}
	}
	forkAt := cur
	F := nodes[forkAt].number
	NA := 8 + rng.Intn(5)
	aIdx := map[uint64]int{}
	for i := 0; i < NA; i++ {
		if cur, ok = next(cur, rootA, false); !ok {
			return
		}
		aIdx[nodes[cur].number] = cur
	}
	N := nodes[cur].number
	tdA := nodes[cur].td
	src := fmt.Sprintf("%s reorg w=%d", name, w)
	nextA := 0
	takeA := func() dep { d := depsA[nextA]; nextA++; return d }
	cs := func(nm string, h uint64, st *es.State, d dep, exp expect) kase {
		return kase{nm, h, st.Prove(ccmc, d.slot).JSON(), d.msg, exp}
	}
	// sanity before the reorganisation: a deposit in A with enough confirmations is accepted
	if hd, _, okc := e.Canon(chainID); !okc || hd != N {
		r.Count(name+":reorg_setup_failed", 1)
		return
	}
	runCase(r, e, name, chainID, w, src, cs("before-reorg/valid-in-chain-A", N-w+1, stA, takeA(), accept), g, N)
	// ---- fork B: heavy blocks until it outweighs A
	cur = forkAt
	for nodes[cur].td.Cmp(tdA) <= 0 {
		if cur, ok = next(cur, rootB, true); !ok {
			return
		}
		if nodes[cur].number >= N {
			r.Count(name+":reorg_setup_fork_not_shorter", 1)
			return
		}
	}
	M := nodes[cur].number
	if hd, idx, okc := e.Canon(chainID); !okc || hd != M || idx[M] == (es.Hash{}) {
		// the light client did not move to the shorter heavier fork: C27 / C29 judge that, not this check
		r.Count(name+":reorg_setup_failed", 1)
		return
	}
	r.Count(name+":reorg_to_lower_head_setups", 1)
	r.Distinct(name, "reorg", w, N-M, M-F)
	// ---- orphaned A blocks at every height relative to the new head
	var cases []kase
	for h := F + 1; h <= N+1; h++ {
		rel := "at-or-below-head"
		switch {
		case h > N:
			rel = "above-old-tip"
		case h > M:
			rel = "above-head"
		}
		cases = append(cases, cs(fmt.Sprintf("after-reorg/orphaned-A-block-%s", rel), h, stA, takeA(), reject))
	}
	cases = append(cases, cs("after-reorg/orphaned-A-state-at-fork-point", F, stA, takeA(), reject))
	// canonical B blocks
	nextB := 0
	takeB := func() dep { d := depsB[nextB]; nextB++; return d }
	if M-w+1 > F {
		cases = append(cases, cs("after-reorg/valid-in-fork-B-at-confirmation-boundary", M-w+1, stB, takeB(), accept))
	}
	if w > 1 {
		cases = append(cases, cs("after-reorg/fork-B-one-short-of-confirmations", M-w+2, stB, takeB(), reject))
	}
	cases = append(cases, cs("after-reorg/fork-B-state-above-head", M+1, stB, takeB(), reject))
	for _, c := range cases {
		if !runCase(r, e, name, chainID, w, src, c, g, M) {
			return
		}
	}
	// ---- B grows by two blocks (still below N): the same questions again around the new head
	for i := 0; i < 2 && nodes[cur].number+1 < N; i++ {
		if cur, ok = next(cur, rootB, true); !ok {
			return
		}
	}
	M2 := nodes[cur].number
	if hd, _, okc := e.Canon(chainID); !okc || hd != M2 {
		r.Count(name+":reorg_setup_failed", 1)
		return
	}
	cases = nil
	for h := M; h <= N && nextA < len(depsA); h++ {
		rel := "at-or-below-head"
		if h > M2 {
			rel = "above-head"
		}
		cases = append(cases, cs(fmt.Sprintf("after-reorg-and-growth/orphaned-A-block-%s", rel), h, stA, takeA(), reject))
	}
	if M2-w+1 > F {
		cases = append(cases, cs("after-reorg-and-growth/valid-in-fork-B", M2-w+1, stB, takeB(), accept))
	}
	for _, c := range cases {
		if !runCase(r, e, name, chainID, w, src, c, g, M2) {
			return
		}
	}
}
