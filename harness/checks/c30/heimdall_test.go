package c30

// Heimdall (polygon) member of the Tendermint family. Its wire types are poly's own fork of
// tendermint 0.32 (peppermint); no independent implementation is available offline, so the fork's
// types are used to *encode* honest data (header hash, validator-set hash, vote sign-bytes), while
// the verdict stays construction-based: a validator's power counts iff the check itself made that
// validator sign the precommit for this block, and each validator counts once.

import (
	"bytes"
	"fmt"
	"math/rand"
	"testing"
	"time"

	ethcrypto "github.com/ethereum/go-ethereum/crypto"
	"github.com/polynetwork/poly/native/service/header_sync/polygon"
	ptypes "github.com/polynetwork/poly/native/service/header_sync/polygon/types"
	psecp "github.com/polynetwork/poly/native/service/header_sync/polygon/types/secp256k1"
	"github.com/polynetwork/poly/native/service/utils"
	"github.com/tendermint/tendermint/version"

	"verifharness/kit"
	"verifharness/kit/nat"
	"verifharness/synth/chains"
)

const heimdallChain = 42

type hmVal struct {
	priv  psecp.PrivKeySecp256k1
	val   *ptypes.Validator
	power int64
}

func hmNewSet(rng *rand.Rand, n int, shape string) []*hmVal {
	// reuse the power shapes of the family (keys are discarded)
	tv, _ := newSet(rng, &adapter{}, n, shape)
	out := make([]*hmVal, n)
	for i := range out {
		var p psecp.PrivKeySecp256k1
		for {
			rng.Read(p[:])
			if _, err := ethcrypto.ToECDSA(p[:]); err == nil {
				break
			}
		}
		out[i] = &hmVal{priv: p, power: tv[i].Power}
		out[i].val = ptypes.NewValidator(p.PubKey(), tv[i].Power)
	}
	return out
}

func hmSet(vs []*hmVal) *ptypes.ValidatorSet {
	l := make([]*ptypes.Validator, len(vs))
	for i, v := range vs {
		l[i] = v.val.Copy()
	}
	return ptypes.NewValidatorSet(l)
}

// hmOrder returns vs in the index order of the set (by address).
func hmOrder(vs []*hmVal) []*hmVal {
	set := hmSet(vs)
	by := map[string]*hmVal{}
	for _, v := range vs {
		by[string(v.val.Address)] = v
	}
	var out []*hmVal
	for _, tv := range set.Validators {
		out = append(out, by[string(tv.Address)])
	}
	return out
}

type hmSlot struct {
	kind string // valid | absent | nil | forged | copy
	of   int    // for copy: index of the validator whose precommit is repeated here
}

type hmCase struct {
	height     int64
	nvh        []byte
	valsetHash []byte
	validPower int64
	total      int64
	raw        []byte
	slots      []hmSlot
	powers     []int64
	desc       string
}

func (c *hmCase) legit(t *tracked) bool {
	return c.height > t.H && bytes.Equal(t.NVH, c.valsetHash) && 3*c.validPower > 2*c.total
}

func hmBuild(rng *rand.Rand, height int64, vs []*hmVal, nextHash []byte, slots []hmSlot, desc string) *hmCase {
	ord := hmOrder(vs)
	set := hmSet(vs)
	h := ptypes.Header{
		Version: version.Consensus{Block: 10}, ChainID: chainLabel, Height: height, Time: time.Unix(1600000000+height*5, 0).UTC(),
		NumTxs: 1, TotalTxs: height,
		LastBlockID:    ptypes.BlockID{Hash: bytes.Repeat([]byte{1}, 32), PartsHeader: ptypes.PartSetHeader{Total: 1, Hash: bytes.Repeat([]byte{2}, 32)}},
		LastCommitHash: bytes.Repeat([]byte{3}, 32), DataHash: bytes.Repeat([]byte{4}, 32),
		ValidatorsHash: set.Hash(), NextValidatorsHash: nextHash, ConsensusHash: bytes.Repeat([]byte{5}, 32),
		AppHash: bytes.Repeat([]byte{6}, 32), LastResultsHash: bytes.Repeat([]byte{7}, 32), EvidenceHash: bytes.Repeat([]byte{8}, 32),
		ProposerAddress: ord[0].val.Address,
	}
	bid := ptypes.BlockID{Hash: h.Hash(), PartsHeader: ptypes.PartSetHeader{Total: 1, Hash: bytes.Repeat([]byte{9}, 32)}}
	c := &hmCase{height: height, nvh: nextHash, valsetHash: set.Hash(), total: set.TotalVotingPower(), slots: slots, desc: desc}
	pre := make([]*ptypes.CommitSig, len(ord))
	signed := map[int]bool{}
	mk := func(i int, b ptypes.BlockID) *ptypes.CommitSig {
		v := &ptypes.Vote{Type: ptypes.PrecommitType, Height: height, Round: 0, BlockID: b, Timestamp: h.Time.Add(time.Duration(i+1) * time.Millisecond),
			ValidatorAddress: ord[i].val.Address, ValidatorIndex: i}
		sig, err := ord[i].priv.Sign(v.SignBytes(chainLabel))
		if err != nil {
			panic(err)
		}
		v.Signature = sig[:64]
		cs := ptypes.CommitSig(*v)
		return &cs
	}
	// first pass: real votes
	for i, s := range slots {
		switch s.kind {
		case "valid":
			pre[i] = mk(i, bid)
			signed[i] = true
		case "nil":
			pre[i] = mk(i, ptypes.BlockID{})
		case "forged":
			pre[i] = mk(i, bid)
			pre[i].Signature = make([]byte, 64)
			rng.Read(pre[i].Signature)
		}
	}
	// second pass: copies of somebody else's honest precommit
	for i, s := range slots {
		if s.kind == "copy" && pre[s.of] != nil {
			cp := *pre[s.of]
			pre[i] = &cp
		}
	}
	for i := range ord {
		c.powers = append(c.powers, ord[i].power)
		if signed[i] {
			c.validPower += ord[i].power
		}
	}
	var vl []*ptypes.Validator
	for _, v := range ord {
		vl = append(vl, v.val.Copy())
	}
	c.raw = ptypes.NewCDC().MustMarshalBinaryBare(polygon.CosmosHeader{Header: h, Commit: &ptypes.Commit{BlockID: bid, Precommits: pre}, Valsets: vl})
	return c
}

func hmRead(e *nat.Env) *tracked {
	info, err := polygon.GetEpochSwitchInfo(e.Service(), heimdallChain)
	if err != nil || info == nil {
		return nil
	}
	return &tracked{H: info.Height, NVH: append([]byte{}, info.NextValidatorsHash...)}
}

func heimdallEpisode(t *testing.T, r *kit.Run, rng *rand.Rand, maxN, steps int) {
	a := &adapter{name: "heimdall", router: utils.POLYGON_HEIMDALL_ROUTER, chainID: heimdallChain}
	e := newEnv(t, r, rng, a)
	cur := hmNewSet(rng, 1+rng.Intn(maxN), shapes[rng.Intn(len(shapes))])
	sets := map[string][]*hmVal{}
	h0 := int64(1 + rng.Intn(1000))
	curHash := hmSet(cur).Hash()
	sets[string(curHash)] = cur
	gen := hmBuild(rng, h0, cur, curHash, make([]hmSlot, len(cur)), "genesis")
	for i := range gen.slots {
		gen.slots[i] = hmSlot{kind: "absent"}
	}
	if rec := chains.SyncGenesis(e, heimdallChain, gen.raw, nat.Operator(e.Validators)); !rec.Ok {
		r.Inconclusive("heimdall genesis: " + rec.Err)
		return
	}
	for step := 0; step < steps; step++ {
		before := hmRead(e)
		if before == nil {
			r.Inconclusive("heimdall: tracked record unreadable")
			return
		}
		cur = sets[string(before.NVH)]
		ord := hmOrder(cur)
		n := len(ord)
		next := hmNewSet(rng, 1+rng.Intn(maxN), shapes[rng.Intn(len(shapes))])
		nextHash := hmSet(next).Hash()
		sets[string(nextHash)] = next
		total := hmSet(cur).TotalVotingPower()
		// signer subsets by position in ord
		perm := rng.Perm(n)
		var above []int
		var sum int64
		for _, i := range perm {
			above = append(above, i)
			sum += ord[i].power
			if 3*sum > 2*total {
				break
			}
		}
		below := above[:len(above)-1]
		slots := make([]hmSlot, n)
		fillRest := func(sel []int, rest string) {
			in := map[int]bool{}
			for _, i := range sel {
				in[i] = true
			}
			for i := range slots {
				if in[i] {
					slots[i] = hmSlot{kind: "valid"}
				} else if rest == "copy" {
					if len(sel) > 0 {
						slots[i] = hmSlot{kind: "copy", of: sel[rng.Intn(len(sel))]}
					} else {
						slots[i] = hmSlot{kind: "absent"}
					}
				} else {
					slots[i] = hmSlot{kind: rest}
				}
			}
		}
		height := before.H + int64(1+rng.Intn(4))
		vs := cur
		op := []string{"honest", "honest", "short-absent", "short-nil", "short-forged", "short-copies", "short-copies", "foreign-valset", "not-higher", "multi-descending", "multi-ascending"}[rng.Intn(11)]
		switch op {
		case "honest":
			fillRest(above, "absent")
		case "short-absent":
			fillRest(below, "absent")
		case "short-nil":
			fillRest(below, "nil")
		case "short-forged":
			fillRest(below, "forged")
		case "short-copies":
			fillRest(below, "copy")
		case "foreign-valset":
			vs = hmNewSet(rng, 1+rng.Intn(maxN), shapes[rng.Intn(len(shapes))])
			slots = make([]hmSlot, len(vs))
			for i := range slots {
				slots[i] = hmSlot{kind: "valid"}
			}
		case "not-higher":
			height = before.H - int64(rng.Intn(2))
			if height < 1 {
				height = 1
			}
			fillRest(above, "absent")
		}
		var second *hmCase
		if op == "multi-descending" || op == "multi-ascending" {
			// two headers in one call: the first switches cur -> next, the second (signed by next)
			// switches next -> third and sits LOWER (but above the stored height) or higher
			fillRest(above, "absent")
			height = before.H + int64(2+rng.Intn(4))
			third := hmNewSet(rng, 1+rng.Intn(maxN), shapes[rng.Intn(len(shapes))])
			thirdHash := hmSet(third).Hash()
			sets[string(thirdHash)] = third
			h2 := before.H + 1 + rng.Int63n(height-before.H) // before.H < h2 <= height
			if op == "multi-ascending" {
				h2 = height + int64(1+rng.Intn(3))
			}
			s2 := make([]hmSlot, len(next))
			for i := range s2 {
				s2[i] = hmSlot{kind: "valid"}
			}
			second = hmBuild(rng, h2, next, thirdHash, s2, op+"-second")
		}
		c := hmBuild(rng, height, vs, nextHash, slots, op)
		var rec *nat.CallRecord
		raws := [][]byte{c.raw}
		if second != nil {
			raws = append(raws, second.raw)
		}
		rec = chains.SyncHeaders(e, heimdallChain, raws)
		after := hmRead(e)
		r.Eval(1)
		kinds := []string{}
		for _, s := range slots {
			kinds = append(kinds, s.kind)
		}
		r.Distinct("heimdall", n, op, fmt.Sprint(kinds), rec.Ok, same(before, after))
		r.Count("heimdall_op_"+op, 1)
		if rec.Panic != nil {
			r.Count("heimdall_panics", 1)
		}
		replay := map[string]interface{}{"router": "heimdall", "op": op, "before": before.String(), "after": after.String(), "height": height,
			"powers_in_index_order": c.powers, "slots": fmt.Sprintf("%+v", slots), "distinct_honest_signer_power": c.validPower, "total_power": c.total,
			"call_ok": rec.Ok, "call_err": rec.Err, "header_amino_hex": kit.Hex(c.raw)}
		if after == nil {
			viol(r, "heimdall:tracked-record-vanished", "record unreadable", replay)
			return
		}
		if after.H < before.H {
			viol(r, "heimdall:tracked-height-decreased", fmt.Sprintf("%v -> %v", before, after), replay)
			return
		}
		if same(before, after) {
			r.Count("heimdall_unchanged", 1)
			if op == "honest" {
				r.Count("heimdall_honest_refused", 1)
				if r.Get("heimdall_honest_refused") <= 2 {
					fmt.Printf("note: honest heimdall header refused: %s\n", rec.Err)
				}
			}
			continue
		}
		r.Count("heimdall_advanced", 1)
		if op == "honest" {
			r.Count("heimdall_honest_advanced", 1)
		}
		if second == nil && c.legit(before) && after.H == c.height && bytes.Equal(after.NVH, c.nvh) {
			continue
		}
		if second != nil {
			// in-order chain of justified headers
			st1 := &tracked{H: c.height, NVH: c.nvh}
			okFinal := false
			if c.legit(before) {
				okFinal = same(after, st1)
				if second.legit(st1) && same(after, &tracked{H: second.height, NVH: second.nvh}) {
					okFinal = true
				}
			}
			if second.legit(before) && same(after, &tracked{H: second.height, NVH: second.nvh}) {
				okFinal = true
			}
			if okFinal {
				r.Count("heimdall_multi_advanced", 1)
				continue
			}
			replay["second_header"] = map[string]interface{}{"height": second.height, "distinct_honest_signer_power": second.validPower, "total_power": second.total, "header_amino_hex": kit.Hex(second.raw)}
			key := "heimdall:advance-not-justified"
			if c.legit(before) && after.H < c.height {
				key = "heimdall:tracked-height-decreased-within-call"
			}
			viol(r, key, fmt.Sprintf("syncBlockHeader(%s: heights %d then %d): tracked %v -> %v", op, c.height, second.height, before, after), replay)
			return
		}
		key := "heimdall:advance-not-justified"
		switch {
		case c.height <= before.H:
			key = "heimdall:advance-height-not-higher"
		case !bytes.Equal(before.NVH, c.valsetHash):
			key = "heimdall:advance-valset-hash-mismatch"
		case op == "short-copies":
			key = "heimdall:duplicate-validator-index-counted"
		case 3*c.validPower <= 2*c.total:
			key = "heimdall:advance-without-two-thirds"
		}
		viol(r, key, fmt.Sprintf("syncBlockHeader(%s): tracked %v -> %v although only %d of %d power honestly signed (each validator counted once)", op, before, after, c.validPower, c.total), replay)
		return
	}
}
