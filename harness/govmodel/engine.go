// engine.go: runs histories (directed scenarios and random ones) against the real contracts and
// the model, reports the findings that belong to the property under check.
package govmodel

import (
	"fmt"
	"math/rand"
	"os"
	"runtime/debug"
	"sort"
	"strings"

	"verifharness/kit"
)

// Step yields the next operations of a directed scenario; it is evaluated when the previous
// steps have been executed, so it can consult the model (assigned ids, current validators).
type Step func(g *Gen) []*Op

// Script is a directed scenario.
type Script struct {
	Name  string
	MinN  int // smallest genesis pool it needs
	Extra int // extra node keys (candidates)
	Steps []Step
	Tail  int // random operations appended after the steps
	// Hostile marks scenarios using non-canonical key spellings.
	Hostile bool
}

// Config selects what a check runs.
type Config struct {
	Property   string // C32 | C33 | C34 | C35: findings of this property are violations
	Histories  int    // random histories
	Ops        int    // operations per random history
	MinN, MaxN int    // genesis pool sizes
	Wt         Weights
	HostilePct int // percent of random histories using hostile key spellings (C34)
	Scripts    []Script
	ScriptReps int // repetitions of every script (different N, orders, noise)
	RealSig    bool
}

type histCtx struct {
	r    *kit.Run
	cfg  *Config
	id   string
	w    *World
	m    *Model
	g    *Gen
	log  []string
	prev *Obs
	n0   int
	dead bool
}

// Run executes the configured histories.
func Run(r *kit.Run, cfg Config) {
	// every world allocates two 4 MiB buffers inside poly's constructors; keep freed spans around
	// instead of faulting fresh pages in for each history
	defer debug.SetGCPercent(debug.SetGCPercent(1000))
	u := NewUniverse(r.Rand("keys"), cfg.MaxN+4)
	for si := range cfg.Scripts {
		sc := &cfg.Scripts[si]
		for rep := 0; rep < cfg.ScriptReps; rep++ {
			rng := r.Rand(fmt.Sprintf("script-%s-%d", sc.Name, rep))
			lo := cfg.MinN
			if sc.MinN > lo {
				lo = sc.MinN
			}
			hi := cfg.MaxN
			if hi < lo {
				hi = lo
			}
			// walk through all sizes first, then random ones
			n0 := lo + rep%(hi-lo+1)
			h := newHist(r, &cfg, u, rng, fmt.Sprintf("script:%s#%d", sc.Name, rep), n0, 2+sc.Extra, sc.Hostile)
			if h == nil {
				continue
			}
			h.g.Wt.SecondRound = cfg.Wt.SecondRound
			r.Count("scripted_histories", 1)
			for _, st := range sc.Steps {
				if h.dead {
					break
				}
				for _, o := range st(h.g) {
					if h.dead {
						break
					}
					o.Script = sc.Name
					h.step(o)
				}
			}
			for i := 0; i < sc.Tail && !h.dead; i++ {
				h.step(h.g.Next(h.w.E.Height))
			}
			h.finish()
		}
	}
	for hi := 0; hi < cfg.Histories; hi++ {
		rng := r.Rand(fmt.Sprintf("history-%d", hi))
		n0 := cfg.MinN + rng.Intn(cfg.MaxN-cfg.MinN+1)
		if hi < 2*(cfg.MaxN-cfg.MinN+1) {
			n0 = cfg.MinN + hi%(cfg.MaxN-cfg.MinN+1) // every size at least twice
		}
		hostile := rng.Intn(100) < cfg.HostilePct
		h := newHist(r, &cfg, u, rng, fmt.Sprintf("random#%d", hi), n0, 1+rng.Intn(4), hostile)
		if h == nil {
			continue
		}
		r.Count("random_histories", 1)
		for i := 0; i < cfg.Ops && !h.dead; i++ {
			h.step(h.g.Next(h.w.E.Height))
		}
		h.finish()
	}
}

func newHist(r *kit.Run, cfg *Config, u *Universe, rng *rand.Rand, id string, n0, extra int, hostile bool) *histCtx {
	w, err := NewWorld(u, rng, n0, extra)
	if err != nil {
		r.Inconclusive("cannot initialise governance: " + err.Error())
		return nil
	}
	w.RealSig = cfg.RealSig
	m := NewModel(w)
	m.Hostile = hostile
	m.Count = func(name string, n int) { r.Count(name, n) }
	m.Fp = func(parts ...interface{}) { r.Distinct(parts...) }
	wt := cfg.Wt
	wt.Hostile = hostile
	h := &histCtx{r: r, cfg: cfg, id: id, w: w, m: m, g: &Gen{W: w, M: m, Rng: rng, Wt: wt}, n0: n0}
	h.prev = w.Observe()
	if h.prev.Err != "" || !same(h.prev.Lines(), m.Lines()) {
		r.Inconclusive(fmt.Sprintf("genesis state differs from the model (%s): %v", h.prev.Err, diff(m.Lines(), h.prev.Lines())))
		return nil
	}
	r.Count(fmt.Sprintf("histories_with_N0=%d", n0), 1)
	r.Count("histories_with_genesis_indices_"+w.IndexShape, 1)
	if hostile {
		r.Count("hostile_histories", 1)
	}
	return h
}

func (h *histCtx) step(o *Op) {
	w, m := h.w, h.m
	cons := m.ConsensusCanons()
	rec := w.Exec(o, cons)
	if o.Kind == KAdvance {
		h.log = append(h.log, fmt.Sprintf("%3d h=%d  %s", len(h.log), w.E.Height, w.Describe(o)))
		return
	}
	obs := w.Observe()
	j := m.Judge(o, rec, h.prev, obs, w.E.Height)
	out := "ok"
	if !rec.Ok {
		e := rec.Err
		if i := strings.LastIndex(e, "error:"); i >= 0 && len(e)-i < 90 {
			e = e[i+6:]
		}
		if len(e) > 110 {
			e = e[len(e)-110:]
		}
		out = "FAILED (" + strings.TrimSpace(e) + ")"
	}
	if j.Effect != "" {
		out += " effect=" + j.Effect + " [" + j.Verdict + "]"
	}
	if j.Epoch {
		out += " EPOCH->view " + fmt.Sprint(obs.View)
	}
	tag := ""
	if o.Tag != "" {
		tag = "  {" + o.Tag + "}"
	}
	h.log = append(h.log, fmt.Sprintf("%3d h=%d  %s -> %s%s", len(h.log), w.E.Height, w.Describe(o), out, tag))
	h.r.Eval(1)
	if !IsApprove(o.Kind) {
		h.r.Distinct(o.Kind, rec.Ok, j.Epoch, len(obs.Pool), o.Tag)
	}
	if j.Epoch {
		h.r.Count("epoch_changes", 1)
	}
	h.observeClasses(o, rec.Ok, j)
	if len(j.Findings) > 0 {
		sort.SliceStable(j.Findings, func(a, b int) bool { return j.Findings[a].Key < j.Findings[b].Key })
		mine := false
		for _, f := range j.Findings {
			if f.Property == h.cfg.Property {
				mine = true
				h.r.Count("violations_"+f.Key, 1)
				if h.r.Get("violations_"+f.Key) > 3 {
					continue // three full reports per shape; the counter keeps the total
				}
				h.r.Violation(f.Key, f.What+"  | history "+h.id+" N0="+fmt.Sprint(h.n0)+", last op: "+h.log[len(h.log)-1],
					map[string]interface{}{"history": h.id, "genesis_validators": h.n0, "hostile_spellings": m.Hostile, "finding": f, "operations": h.log})
			}
		}
		if os.Getenv("VERIF_GOVDEBUG") != "" {
			fmt.Printf("---- %s N0=%d findings=%+v\n%s\n", h.id, h.n0, j.Findings, strings.Join(h.log, "\n"))
		}
		if !mine {
			h.r.Count("histories_ended_by_other_property_finding", 1)
			h.r.Count("other:"+j.Findings[0].Property+":"+j.Findings[0].Key, 1)
		}
		h.dead = true
		return
	}
	if m.Hostile {
		m.Resync(obs)
	}
	h.prev = obs
}

// observeClasses counts what kinds of situations the monitors have actually seen.
func (h *histCtx) observeClasses(o *Op, ok bool, j *Judgement) {
	r := h.r
	if ok {
		r.Count("calls_ok", 1)
	} else {
		r.Count("calls_failed", 1)
	}
	if strings.Contains(o.Tag, "applied-earlier") {
		r.Count("approvals_of_applied_requests", 1)
	}
	if strings.Contains(o.Tag, "overlap/applied-earlier") {
		r.Count("approvals_of_overlapping_requests_applied_earlier", 1)
	}
	if strings.Contains(o.Tag, "adds-nothing") || strings.Contains(o.Tag, "removes-nothing") {
		r.Count("approvals_of_requests_whose_action_changes_nothing", 1)
	}
	if strings.Contains(o.Tag, "returning/") {
		r.Count("approvals_in_returning_rounds", 1)
	}
	if strings.Contains(o.Tag, "outsider") {
		r.Count("approvals_by_outsiders", 1)
	}
	if strings.Contains(o.Tag, "repeat") {
		r.Count("approvals_repeated", 1)
	}
	if strings.Contains(o.Tag, "variant") {
		r.Count("calls_with_variant_spelling", 1)
	}
}

func (h *histCtx) finish() {
	h.w.E.Store.Close() // stops the in-memory LevelDB's goroutines and releases its buffers
	if !h.dead {
		h.r.Count("histories_completed", 1)
	}
	if len(h.log) > 0 && h.r.Get("samples_taken") < 3 && (h.dead || len(h.log) > 20) {
		h.r.Count("samples_taken", 1)
		n := len(h.log)
		if n > 25 {
			n = 25
		}
		h.r.Sample(map[string]interface{}{"history": h.id, "N0": h.n0, "first_operations": h.log[:n]})
	}
}

// ---------------------------------------------------------------------------------------------
// Building blocks for directed scenarios.

// OpStep wraps a single-operation step.
func OpStep(f func(g *Gen) *Op) Step {
	return func(g *Gen) []*Op {
		if o := f(g); o != nil {
			return []*Op{o}
		}
		return nil
	}
}

// RoundStep = approvals of (method, req()) by all consensus validators, random order, with noise.
func RoundStep(method string, req func(g *Gen) string, tag string) Step {
	return func(g *Gen) []*Op { return g.Round(method, req(g), tag, true) }
}

// EpochStep advances the height and commits with the operator's signature.
func EpochStep() Step {
	return func(g *Gen) []*Op {
		return []*Op{{Kind: KAdvance, Delta: 1}, {Kind: KCommitDpos, OpSig: true, Tag: "operator"}}
	}
}

// LastID returns a closure giving the id the model assigned to the latest request of a method.
func LastID(method string) func(g *Gen) string {
	return func(g *Gen) string { return fmt.Sprint(g.M.NextID[method] - 1) }
}

// Const returns a constant request key.
func Const(s string) func(g *Gen) string { return func(*Gen) string { return s } }
