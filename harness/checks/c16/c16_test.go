// C16: block execution is deterministic — clock-skew differential re-execution and a call-site
// monitor for wall-clock / randomness APIs beneath NativeService.Invoke (see kit/detmon).
// This package only builds with the standard-library overlay (driver phase "overlay": true).
package c16

import (
	"fmt"
	"testing"

	"verifharness/kit"
	"verifharness/kit/detmon"
	"verifharness/workloads"

	polyeth "github.com/polynetwork/poly/native/service/header_sync/eth"
)

const day = int64(86400) * 1e9

func skews(r *kit.Run) []int64 {
	if r.Quick() {
		return []int64{400 * day, -400 * day, 0}
	}
	return []int64{400 * day, -400 * day, 3600e9, -3600e9, 30e9, -30e9, 3650 * day, 0}
}

func TestC16(t *testing.T) {
	r := kit.Start(t, "C16", "exploration")
	defer r.Finish()
	r.Rule("every native call of the workloads (governance, side-chain registry, relayers, vote-router imports, signature manager, fee updates, header sync + deposit imports of the eth / bsc / heco / hsc / pixie / bytom / msc / cosmos / ont / neo routers as available) is executed once per injected wall-clock skew on the same prior state and all executions are compared; distinct = (contract.method, outcome, #writes, #events) shapes + distinct call sites")
	r.Assume("reach is limited to the native entry points listed under native_entry_points_executed; code paths the workloads do not drive are not covered")
	r.Assume("time.Now/Since/Until and the global math/rand generator are observed through a standard-library overlay, crypto/rand through its exported Reader variable; math/rand/v2 and direct runtime clock reads are not observed")
	r.Assume("scheduling independence is not exercised separately: native contract execution is single-threaded in the workloads")
	m := detmon.Install(r, skews(r))
	defer m.Uninstall()
	polyeth.VerifSealBypass = true
	defer func() { polyeth.VerifSealBypass = false }()

	rounds := r.N(2, 30)
	for round := 0; round < rounds; round++ {
		workloads.Gov(r, r.Rand(fmt.Sprintf("gov/%d", round)), nil)
		workloads.GovLists(r, r.Rand(fmt.Sprintf("govlists/%d", round)), nil)
		workloads.BtcGov(r, r.Rand(fmt.Sprintf("btcgov/%d", round)), nil)
		workloads.Relayers(r, r.Rand(fmt.Sprintf("relayers/%d", round)), nil)
		workloads.GenesisAll(r, r.Rand(fmt.Sprintf("genesis/%d", round)), nil)
		for _, name := range []string{"eth", "bsc", "heco", "hsc", "pixie", "bytom", "msc"} {
			workloads.EVM(r, r.Rand(fmt.Sprintf("evm/%s/%d", name, round)), nil, name, uint64(2000+round))
		}
		workloads.Extra(r, r.Rand(fmt.Sprintf("extra/%d", round)), nil)
		workloads.RippleDest(r, r.Rand(fmt.Sprintf("ripple-dest/%d", round)), nil)
		workloads.Bor(r, r.Rand(fmt.Sprintf("bor/%d", round)), nil)
	}
	workloads.EthRealSeal(r, r.Rand("eth-realseal"), nil)
	m.Report()
	r.Eval(int(r.Get("executions_compared")))
	for k, v := range m.Entry {
		r.Distinct("entry", k)
		_ = v
	}
	r.Require("eth_pre_london_slow_block_header_accepted", 1)
	r.Require("native_calls_monitored", 150)
	r.Require("successful_calls", 60)
	r.Require("failed_calls", 10)
	r.Require("ripple_multisign_quorum_reached", 2)
	r.Sample(map[string]interface{}{"skews_ns": skews(r), "entry_points": m.Entry})
}

