package c22

import (
	"fmt"
	"math/rand"
	"sync"
	"testing"

	"github.com/polynetwork/poly/common/config"
	"github.com/polynetwork/poly/native/service/utils"

	"verifharness/kit"
	"verifharness/kit/nat"
	"verifharness/kit/pk"
	cs "verifharness/synth/ccmsynth"
)

// raceWorld is a small universe of its own (own store, overlay, cache, validators): imports on
// different raceWorlds share nothing but the poly code itself, like a block execution and the RPC
// pre-executions (PreExecuteContract takes no lock) that run next to it in a node.
type raceWorld struct {
	w    *cs.World
	dsts []uint64
}

func newRaceWorld(r *kit.Run, tag string) *raceWorld {
	krng := r.Rand("race-keys-" + tag)
	w, err := cs.NewWorld(config.NETWORK_ID_MAIN_NET, pk.NewKeys(krng, 4), pk.NewKey(krng))
	if err != nil {
		r.Inconclusive("race world: " + err.Error())
		return nil
	}
	rw := &raceWorld{w: w}
	for _, s := range []cs.ChainSpec{{ID: srcVoteA, Router: utils.VOTE_ROUTER}, {ID: 102, Router: utils.ETH_ROUTER}, {ID: 106, Router: utils.BSC_ROUTER}, {ID: 103, Router: utils.ONT_ROUTER}} {
		if err := w.RegisterAndApprove(s); err != nil {
			r.Inconclusive("race world setup: " + err.Error())
			return nil
		}
		if s.ID != srcVoteA {
			rw.dsts = append(rw.dsts, s.ID)
		}
	}
	return rw
}

// importOnce plays one voting round (3 of 4 validators) for a fresh message and returns the
// observation of the deciding call.
func (rw *raceWorld) importOnce(rng *rand.Rand, n int) (*cs.Obs, cs.Release) {
	cross := []byte(fmt.Sprintf("race-%d-%d", n, rng.Int63()))
	p := message(rng, srcVoteA, rw.dsts[rng.Intn(len(rw.dsts))], cross)
	im := cs.Import{Source: srcVoteA, Height: rng.Uint32(), Param: p}
	var last *cs.Obs
	for i := 0; i < cs.Threshold(len(rw.w.Vals)); i++ {
		v := rw.w.Vals[i]
		last = rw.w.Do(func() *nat.CallRecord { return rw.w.Vote(im, v) })
	}
	return last, cs.Release{Source: srcVoteA, Param: p}
}

// TestC22Race: the monitored imports run while several other goroutines execute imports on their
// own universes at the same time. The request record and the cross-state leaf of every monitored
// accepted import must still be exactly what the model says; the Go race detector (this phase is
// built with -race) reports unsynchronised sharing between the executions.
func TestC22Race(t *testing.T) {
	r := kit.Start(t, "C22", "exploration")
	defer r.Finish()
	r.Rule("race phase: one goroutine runs vote-router imports (fresh messages with boundary-biased field sizes towards eth / bsc / ont destinations) that are checked with the release monitor, while 4 goroutines run the same kind of imports on 4 other, completely separate universes (own store / overlay / cache / keys), like RPC pre-executions next to block execution; fixed call counts, no timing in the verdict; evaluation = one monitored accepted import; distinct = (destination, field lengths)")
	r.Assume("executions on separate universes share only the poly code; every Go race report is a violation (reported by the driver), and so is any monitored import whose stored request or leaf differs from the model")
	const background = 4
	nMon := r.N(80, 800)
	nBg := r.N(80, 800)
	// all universes are built before any goroutine starts (setup writes process-wide configuration)
	mon := newRaceWorld(r, "mon")
	var bgs []*raceWorld
	for g := 0; g < background; g++ {
		bgs = append(bgs, newRaceWorld(r, fmt.Sprintf("bg%d", g)))
	}
	if mon == nil {
		return
	}
	for _, b := range bgs {
		if b == nil {
			return
		}
	}
	var wg sync.WaitGroup
	start := make(chan struct{})
	for g, b := range bgs {
		wg.Add(1)
		grng := r.Rand(fmt.Sprintf("race-bg-%d", g))
		go func(b *raceWorld, grng *rand.Rand) {
			defer wg.Done()
			<-start
			ok := 0
			for i := 0; i < nBg; i++ {
				if o, _ := b.importOnce(grng, i); o != nil && o.Rec.Ok && len(o.Rec.CrossHashes) == 1 {
					ok++
				}
			}
			r.Count("background_imports_accepted", ok)
		}(b, grng)
	}
	close(start)
	mrng := r.Rand("race-mon")
	for i := 0; i < nMon; i++ {
		o, exp := mon.importOnce(mrng, i)
		if o == nil || !o.Rec.Ok {
			r.Count("monitored_import_refused", 1)
			continue
		}
		r.Eval(1)
		r.Count("monitored_imports_accepted", 1)
		r.Distinct(exp.Param.ToChainID, len(exp.Param.TxHash), len(exp.Param.FromContractAddress), len(exp.Param.ToContractAddress), len(exp.Param.Method), len(exp.Param.Args))
		for _, f := range cs.CheckRelease(o, exp) {
			r.Violation("concurrent-executions accepted-import "+f.Code, f.Detail, map[string]interface{}{"monitored_import": i, "touched": o.Touched()})
		}
	}
	wg.Wait()
	r.Require("monitored_imports_accepted", nMon*9/10)
	r.Require("background_imports_accepted", background*nBg*9/10)
}
