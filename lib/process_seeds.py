#!/usr/bin/env python3
"""process_seeds.py <seedout-dir>... — for every <dir>/<PROP>/ with notes.md headers (DEMO_PKG, TAGS,
NEEDS_BLS, SUMMARY): confirm the seeded change, run the property's check against it and keep it in
/verif/seeded when caught. Prints a table; misses are left for strengthening."""
import json, os, re, subprocess, sys, concurrent.futures as cf
V = os.path.dirname(os.path.dirname(os.path.abspath(__file__)))
def hdr(notes, key):
    m = re.search(r"^\s*%s\s*:\s*(.+)$" % key, notes, re.M)
    return m.group(1).strip().strip("`") if m else ""
def one(d):
    prop = re.match(r"(C\d+)", os.path.basename(d)).group(1)
    notes = open(os.path.join(d, "notes.md"), errors="replace").read() if os.path.exists(os.path.join(d, "notes.md")) else ""
    pkg, tags, bls, summ = hdr(notes, "DEMO_PKG"), hdr(notes, "TAGS"), hdr(notes, "NEEDS_BLS"), hdr(notes, "SUMMARY")
    if not pkg or not os.path.exists(os.path.join(d, "patch.diff")):
        return d, prop, "NO-HEADER", "-", summ
    env = dict(os.environ)
    if "verif" in tags.lower(): env["TAGS"] = "verif"
    if bls.lower().startswith("y"): env["NEED_BLS"] = "1"
    c = subprocess.run([os.path.join(V, "lib", "confirm_seed.sh"), d, pkg.strip("/")], env=env, stdout=subprocess.PIPE, stderr=subprocess.STDOUT).stdout.decode(errors="replace")
    conf = "CONFIRMED" if "\nCONFIRMED" in "\n" + c else "NOT-CONFIRMED"
    t = subprocess.run([os.path.join(V, "lib", "try_seed.sh"), os.path.join(d, "patch.diff"), prop], stdout=subprocess.PIPE, stderr=subprocess.STDOUT).stdout.decode(errors="replace")
    m = re.search(r"== %s exit=(\d+)" % prop, t)
    rc = m.group(1) if m else "?"
    if conf == "CONFIRMED" and rc == "1" and "--keep" in sys.argv:
        env2 = dict(os.environ, SUMMARY=summ)
        subprocess.run([sys.executable, os.path.join(V, "lib", "keep_seed.py"), d, prop, pkg.strip("/"), "CONFIRMED", ("strengthened" if "--strengthened" in sys.argv else "yes")], env=env2, stdout=subprocess.DEVNULL)
    open(os.path.join(d, "lead_result.txt"), "w").write(c[-1500:] + "\n---\n" + t[-1500:])
    return d, prop, conf, rc, summ
dirs = []
for top in [a for a in sys.argv[1:] if not a.startswith("--")]:
    for n in sorted(os.listdir(top)):
        p = os.path.join(top, n)
        if os.path.isdir(p) and re.match(r"C\d+", n) and not os.path.exists(os.path.join(p, "lead_result.txt")):
            dirs.append(p)
with cf.ThreadPoolExecutor(3) as ex:
    for d, prop, conf, rc, summ in ex.map(one, dirs):
        print("%-28s %-4s %-13s check_exit=%s  %s" % (d.replace("/var/tmp/seedout/", ""), prop, conf, rc, summ[:110]), flush=True)
