package workloads

import (
	"fmt"
	"testing"
	"time"

	"verifharness/kit"
)

func TestTmpExtra(t *testing.T) {
	r := kit.Start(t, "CXX", "exploration")
	for i := 0; i < 3; i++ {
		t0 := time.Now()
		var pal *Palette
		if i > 0 {
			pal = &Palette{ChainIDs: []uint64{0x746867696548, 7, 1 << 63}, Blobs: [][]byte{[]byte("Height"), []byte("s"), {0, 0, 0, 0, 0, 0, 0, 1}, []byte("ApplyID")}}
		}
		for _, f := range []func(){
			func() { tmTour(r, r.Rand(fmt.Sprint("a", i)), pal, "cosmos", 2705, 10) },
			func() { tmTour(r, r.Rand(fmt.Sprint("b", i)), pal, "cosmos", 2706, 11) },
			func() { tmTour(r, r.Rand(fmt.Sprint("c", i)), pal, "okex", 2712, 10) },
			func() { heimdallTour(r, r.Rand(fmt.Sprint("d", i)), pal) },
			func() { ontTour(r, r.Rand(fmt.Sprint("e", i)), pal) },
			func() { neoTour(r, r.Rand(fmt.Sprint("f", i)), pal) },
			func() { neo3Tour(r, r.Rand(fmt.Sprint("g", i)), pal) },
			func() { neo3LegacyTour(r, r.Rand(fmt.Sprint("h", i)), pal) },
		} {
			t1 := time.Now()
			f()
			fmt.Println("tour done", time.Since(t1))
		}
		fmt.Println("round", i, time.Since(t0))
	}
}
