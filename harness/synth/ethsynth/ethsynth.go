// Package ethsynth produces honest synthetic data for the Ethereum-family light clients and deposit
// proofs of polynetwork/poly, plus the plumbing to feed it through the REAL native contracts.
// It never copies poly logic: rules are transcribed from the public specifications
// (EIP-100/649/1234/2384/3554/4345, EIP-1559, yellow-paper RLP, Parlia / Congress consensus docs).
//
// API summary (import path verifharness/synth/ethsynth)
//
//   env.go      Env = nat.Env + governance validators.
//               NewEnv(rng, netID) *Env
//               (*Env).RegisterSideChain(chainID, router, name, blocksToWait, ccmc, extraInfo) error
//                        registerSideChain + approveRegisterSideChain by every validator (real contracts)
//               (*Env).SyncGenesis(chainID, genesisBytes) *nat.CallRecord      operator-signed
//               (*Env).SyncHeaders(chainID, headers...) *nat.CallRecord        header_sync.syncBlockHeader
//               (*Env).Import(chainID, height, proof, extra) *nat.CallRecord   cross_chain_manager.ImportOuterTransfer
//               (*Env).Stored(chainID) map[Hash]*StoredHeader   every HEADER_INDEX entry (raw storage, decoded)
//               (*Env).Canon(chainID) (head uint64, index map[uint64]Hash, ok bool)  CURRENT_HEADER_HEIGHT / MAIN_CHAIN
//               (*Env).HSDigest(chainID) string     digest of all header-sync storage
//               CheckChainInvariants(stored, head, index, root) []string   C27/C29 structural invariants
//
//   spec.go     independent transcriptions: SpecDifficulty(delay, time, parent...), Forks / ForksFor(netID),
//               (Forks).Delay(number), SpecBaseFee, SpecGasLimitOK, RLP encoder (RlpBytes, RlpUint, RlpBig, RlpList),
//               HeaderRLP / SpecHash (block hash) / SpecSealHashPoW (ethash seal hash), Keccak.
//
//   ethchain.go Ethereum PoW headers for the eth router (use with eth.VerifSealBypass = true):
//               H = poly's eth.Header; NewRoot(rng, number, opts), Child(rng, forks, parent, ChildOpt) *H,
//               JSON(h) []byte (the format SyncBlockHeader expects), Valid(forks, parent, child) []string (spec oracle).
//
//   posa.go     Parlia / Congress style chains: Flavor table (Bsc, Bytom, Heco, Hsc, Pixie), Validator keys
//               (secp256k1), (*Flavor).SealHash, Seal, HeaderJSON, GenesisJSON, ExtraInfoJSON; reference model
//               PoSAModel (validator set in effect, recent-signer window, in-turn difficulty) for building honest
//               children and judging arbitrary headers.
//
//   state.go    account + storage tries with go-ethereum v1.9.15 trie: NewState(rng, ccmc, nAccounts),
//               (*State).SetSlot(slot, msg), Root(), Proof(addr, slot) *Proof (JSON shape of ETHProof / bsc Proof),
//               StorageValueFor(msg), DepositMessage(rng, ...) ([]byte, *MakeTxParam).
package ethsynth
