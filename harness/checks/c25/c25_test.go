// C25: vote-based approvals fire exactly once, at ceil(2N/3) distinct current validators.
//
// Four real entry points that count validator votes are driven with the same histories:
//   import/vote   ImportOuterTransfer of a VOTE-router chain      (release = one request + one leaf, C22 monitor)
//   import/ripple ImportOuterTransfer of a ripple-router chain    (same)
//   signature     signature_manager.addSignature                  (release = one AddSignatureQuorum event)
//   fee           side_chain_manager.updateFee                    (release = the fee view advances by one)
// Histories interleave votes on several open subjects by validators who have not voted yet,
// repeat voters, outsiders and former validators, with validator-set changes (real
// registerCandidate/approveCandidate/quitNode/commitDpos) between votes.
package c25

import (
	"fmt"
	"math/big"
	"math/rand"
	"testing"

	"github.com/polynetwork/poly/common"
	"github.com/polynetwork/poly/common/config"
	scom "github.com/polynetwork/poly/native/service/cross_chain_manager/common"
	"github.com/polynetwork/poly/native/service/utils"

	"verifharness/kit"
	"verifharness/kit/nat"
	"verifharness/kit/pk"
	cs "verifharness/synth/ccmsynth"
)

const (
	srcVote   = 10
	srcRipple = 12
	dstEth    = 20
	feeChainA = 10
	feeChainB = 20
	feeChainW = 777
)

type subject struct {
	path   string // import/vote, import/ripple, signature, fee
	id     string // model id
	im     cs.Import
	p      *scom.MakeTxParam
	subj   []byte // signature subject
	side   uint64
	chain  uint64 // fee chain
	view   uint64 // fee view
	closed bool   // released (kept for votes after release)
}

type hist struct {
	r       *kit.Run
	rng     *rand.Rand
	w       *cs.World
	vm      *cs.VoteModel
	spare   []*pk.Key // keys that can become validators
	former  []*pk.Key // removed validators
	outs    []*pk.Key // never validators
	subs    []*subject
	trace   []string
	bad     bool
	shape   string
	seq     int
	maxVals int
	spareWallet map[*pk.Key]*pk.Key
}

func (h *hist) logf(f string, a ...interface{}) { h.trace = append(h.trace, fmt.Sprintf(f, a...)) }

func (h *hist) violation(key, what string) {
	h.bad = true
	h.r.Violation(key, what, map[string]interface{}{"history": h.trace, "validators_now": len(h.w.Vals)})
}

func (h *hist) newSubject(path string) *subject {
	h.seq++
	s := &subject{path: path}
	switch path {
	case "import/vote", "import/ripple":
		src := uint64(srcVote)
		if path == "import/ripple" {
			src = srcRipple
		}
		cross := []byte(fmt.Sprintf("x%d-", h.seq))
		cross = append(cross, byte(h.rng.Intn(256)))
		p := cs.RandParam(h.rng, dstEth, cross)
		if path == "import/ripple" {
			sink := common.NewZeroCopySink(nil)
			sink.WriteVarBytes([]byte{1, 2, 3, 4})
			sink.WriteUint64(uint64(h.rng.Int63()))
			p.Args = sink.Bytes()
		}
		s.p = p
		s.im = cs.Import{Source: src, Height: h.rng.Uint32(), Param: p}
		s.id = cs.SubjectID(src, s.im.Height, cs.ExtraOf(p))
	case "signature":
		s.subj = make([]byte, 1+h.rng.Intn(60))
		h.rng.Read(s.subj)
		s.subj = append(s.subj, []byte(fmt.Sprintf("#%d", h.seq))...)
		s.side = uint64(h.rng.Intn(5))
		s.id = fmt.Sprintf("sig/%x", s.subj)
	}
	return s
}

// feeSubject returns the open fee subject of a chain (its current view).
func (h *hist) feeSubject(chain uint64) *subject {
	view, _ := h.w.Fee(chain)
	id := fmt.Sprintf("fee/%d/%d", chain, view)
	for _, s := range h.subs {
		if s.id == id {
			return s
		}
	}
	s := &subject{path: "fee", id: id, chain: chain, view: view}
	h.subs = append(h.subs, s)
	return s
}

// cast lets k vote on s and judges the call against the model.
func (h *hist) cast(s *subject, k *pk.Key, who string) {
	r := h.r
	verdict := h.vm.Classify(s.id, k.Addr, h.w.Vals)
	var viewBefore uint64
	if s.path == "fee" {
		viewBefore, _ = h.w.Fee(s.chain)
	}
	o := h.w.Do(func() *nat.CallRecord {
		switch s.path {
		case "signature":
			sig := make([]byte, 8)
			h.rng.Read(sig)
			return h.w.AddSignature(k, s.side, s.subj, sig)
		case "fee":
			return h.w.UpdateFee(k, s.chain, s.view, big.NewInt(int64(1+h.rng.Intn(1000))))
		}
		return h.w.Vote(s.im, k)
	})
	r.Eval(1)
	// what was released by this call, per path
	released, detail := 0, ""
	switch s.path {
	case "signature":
		released = cs.QuorumEvents(o.Rec)
		detail = fmt.Sprintf("quorum events=%d", released)
	case "fee":
		viewAfter, _ := h.w.Fee(s.chain)
		released = int(viewAfter - viewBefore)
		detail = fmt.Sprintf("fee view %d -> %d", viewBefore, viewAfter)
	default:
		n, _, _ := o.TouchedUnder(scom.REQUEST)
		released = len(n)
		if len(o.Rec.CrossHashes) > released {
			released = len(o.Rec.CrossHashes)
		}
		detail = fmt.Sprintf("requests=%d leaves=%d", len(n), len(o.Rec.CrossHashes))
	}
	h.logf("%s %s voter=%s/%x N=%d voted=%d model=%s -> ok=%v err=%q %s touched=%d", s.path, shortID(s.id), who, k.Addr[:3], len(h.w.Vals), h.vm.Count(s.id, h.w.Vals), verdict, o.Rec.Ok, o.Rec.Err, detail, len(o.Touched()))
	r.Count("calls:"+s.path+":"+verdict.String(), 1)
	r.Count("voter:"+who, 1)
	h.shape += map[cs.Verdict]string{cs.Outsider: "o", cs.AlreadyReleased: "a", cs.Counted: "c", cs.Reached: "R"}[verdict]
	switch verdict {
	case cs.Outsider:
		if released != 0 {
			h.violation(s.path+" outsider-vote-released", detail)
		} else if !o.Unchanged() {
			h.violation(s.path+" outsider-vote-changed-state", fmt.Sprintf("ok=%v touched=%v", o.Rec.Ok, o.Touched()))
		}
		if o.Rec.Ok {
			r.Count("outsider_noop_success:"+s.path, 1)
		} else {
			r.Count("outsider_error:"+s.path, 1)
		}
	case cs.AlreadyReleased:
		if released != 0 {
			h.violation(s.path+" released-again", detail)
		}
		if s.path != "signature" && !o.Unchanged() {
			// a signature arriving after the quorum may still be stored; the other paths have nothing left to record
			h.violation(s.path+" vote-after-release-changed-state", fmt.Sprintf("ok=%v touched=%v", o.Rec.Ok, o.Touched()))
		}
	case cs.Counted:
		if released != 0 {
			h.violation(s.path+" released-below-threshold", fmt.Sprintf("%s with %d of %d validators", detail, h.vm.Count(s.id, h.w.Vals)+1, len(h.w.Vals)))
		} else if !o.Rec.Ok {
			h.violation(s.path+" validator-vote-refused", o.Rec.Err)
		} else {
			h.vm.Commit(s.id, k.Addr, verdict, false)
		}
	case cs.Reached:
		if !o.Rec.Ok || released != 1 {
			h.violation(s.path+" no-single-release-at-threshold", fmt.Sprintf("ok=%v err=%s %s; threshold %d of %d", o.Rec.Ok, o.Rec.Err, detail, cs.Threshold(len(h.w.Vals)), len(h.w.Vals)))
			return
		}
		if s.path == "import/vote" {
			for _, f := range cs.CheckRelease(o, cs.Release{Source: s.im.Source, Param: s.p}) {
				h.violation(s.path+" release-"+f.Code, f.Detail)
			}
		} else if s.path == "import/ripple" {
			for _, f := range cs.CheckReleaseLoose(o, cs.Release{Source: s.im.Source, Param: s.p}) {
				h.violation(s.path+" release-"+f.Code, f.Detail)
			}
		}
		h.vm.Commit(s.id, k.Addr, verdict, true)
		s.closed = true
		r.Count("released:"+s.path, 1)
		r.Count("released_by:"+who, 1)
		r.Count(fmt.Sprintf("released_at_N=%d", len(h.w.Vals)), 1)
	}
}

func shortID(id string) string {
	if len(id) > 28 {
		return id[:28] + "…"
	}
	return id
}

// pickVoter chooses who votes next on s.
func (h *hist) pickVoter(s *subject) (*pk.Key, string) {
	var fresh, voted []*pk.Key
	for _, v := range h.w.Vals {
		if h.vm.Voted[s.id][v.Addr] {
			voted = append(voted, v)
		} else {
			fresh = append(fresh, v)
		}
	}
	x := h.rng.Intn(100)
	switch {
	case x < 12:
		return h.outs[h.rng.Intn(len(h.outs))], "outsider"
	case x < 20 && len(h.former) > 0:
		return h.former[h.rng.Intn(len(h.former))], "former-validator"
	case x < 24 && len(h.spare) > 0:
		return h.spare[h.rng.Intn(len(h.spare))], "future-validator"
	case x < 32 && len(h.w.WalletKeys()) > 0:
		// the account that registered a current validator's node: it is not a consensus validator
		wk := h.w.WalletKeys()
		return wk[h.rng.Intn(len(wk))], "validator-wallet"
	case x < 46 && len(voted) > 0:
		return voted[h.rng.Intn(len(voted))], "repeat-voter"
	case len(fresh) > 0:
		return fresh[h.rng.Intn(len(fresh))], "validator"
	}
	return h.w.Vals[h.rng.Intn(len(h.w.Vals))], "repeat-voter"
}

func (h *hist) epochChange() {
	n := len(h.w.Vals)
	add := h.rng.Intn(2) == 0
	if n <= 4 {
		add = true
	}
	if n >= h.maxVals || len(h.spare) == 0 {
		add = false
	}
	if !add && n <= 4 {
		return
	}
	if add {
		k := h.spare[0]
		h.spare = h.spare[1:]
		if err := h.w.AddValidatorBy(k, h.spareWallet[k]); err != nil {
			h.r.Inconclusive("add validator: " + err.Error())
			h.bad = true
			return
		}
		// a re-added former validator is a validator again
		for i, f := range h.former {
			if f == k {
				h.former = append(h.former[:i], h.former[i+1:]...)
				break
			}
		}
		h.logf("epoch change: validator %x added, N=%d", k.Addr[:3], len(h.w.Vals))
		h.r.Count("epoch_add", 1)
		h.shape += "+"
	} else {
		k := h.w.Vals[h.rng.Intn(n)]
		if err := h.w.RemoveValidator(k); err != nil {
			h.r.Inconclusive("remove validator: " + err.Error())
			h.bad = true
			return
		}
		h.former = append(h.former, k)
		if h.rng.Intn(2) == 0 {
			h.spare = append(h.spare, k) // may come back later
		}
		h.logf("epoch change: validator %x removed, N=%d", k.Addr[:3], len(h.w.Vals))
		h.r.Count("epoch_remove", 1)
		h.shape += "-"
	}
}

// shrinkScript is the directed scenario "the set shrinks under an almost complete vote": a fresh
// subject collects ceil(2N/3)-1 votes, validators that have not voted leave until that count is a
// two-thirds majority of the remaining set, then one of the earlier voters calls again. Under the
// DESIGN §8 reading that call must release.
func (h *hist) shrinkScript(paths []string) {
	var s *subject
	if h.rng.Intn(5) == 0 {
		s = h.feeSubject(feeChainA)
	} else {
		s = h.newSubject(paths[h.rng.Intn(5)])
		h.subs = append(h.subs, s)
	}
	vals := append([]*pk.Key{}, h.w.Vals...)
	h.rng.Shuffle(len(vals), func(i, j int) { vals[i], vals[j] = vals[j], vals[i] })
	c := cs.Threshold(len(vals)) - 1
	for i := 0; i < c && !h.bad; i++ {
		h.cast(s, vals[i], "validator")
	}
	for j := c; j < len(vals) && !h.bad && len(h.w.Vals) > 4 && cs.Threshold(len(h.w.Vals)) > h.vm.Count(s.id, h.w.Vals); j++ {
		if err := h.w.RemoveValidator(vals[j]); err != nil {
			h.r.Inconclusive("remove validator: " + err.Error())
			h.bad = true
			return
		}
		h.former = append(h.former, vals[j])
		h.logf("epoch change: validator %x removed, N=%d", vals[j].Addr[:3], len(h.w.Vals))
		h.r.Count("epoch_remove", 1)
		h.shape += "-"
	}
	if !h.bad && c > 0 {
		h.cast(s, vals[h.rng.Intn(c)], "repeat-voter")
		h.r.Count("shrink_scripts", 1)
	}
}

// windowScript is the directed scenario "pool members that are not consensus validators vote at
// quorum-1": the pool additionally holds a candidate (approved, epoch not closed), a blacklisted
// candidate and a validator that has called quitNode but whose quit is not committed yet. A fresh
// subject collects ceil(2N/3)-1 validator votes, then those three cast their FIRST vote, then a
// validator votes. "Current consensus validator" is ambiguous for the quitting node between its
// quitNode and the next commitDpos, so only what holds under BOTH readings is judged:
//   A: the quitting node is no validator any more (N = the others),  B: it still is (N includes it).
// A release is a violation iff it is premature under A and under B; strict outsiders (candidate,
// blacklisted, anybody else) must never change state; validators outside the ambiguity must be heard.
// The history ends after this script (the validator bookkeeping is restored with the next universe).
func (h *hist) windowScript(paths []string) {
	r := h.r
	if len(h.w.Vals) < 5 {
		return
	}
	cand, black := pk.NewKey(h.rng), pk.NewKey(h.rng)
	if err := h.w.RegisterCandidateOnly(cand, nil); err != nil {
		r.Inconclusive("window: candidate: " + err.Error())
		return
	}
	if err := h.w.RegisterCandidateOnly(black, pk.NewKey(h.rng)); err != nil {
		r.Inconclusive("window: candidate 2: " + err.Error())
		return
	}
	if err := h.w.BlackNodeOnly(black); err != nil {
		r.Inconclusive("window: blackNode: " + err.Error())
		return
	}
	q := h.w.Vals[h.rng.Intn(len(h.w.Vals))]
	if rec := h.w.QuitNodeOnly(q); !rec.Ok {
		r.Inconclusive("window: quitNode: " + rec.Err)
		return
	}
	var sa []*pk.Key // validators under both readings
	for _, v := range h.w.Vals {
		if v != q {
			sa = append(sa, v)
		}
	}
	nA, nB := len(sa), len(sa)+1
	h.logf("window: validators %d, quitting %x (quitNode sent, epoch not closed), candidate %x, blacklisted candidate %x", nA, q.Addr[:3], cand.Addr[:3], black.Addr[:3])
	var s *subject
	if h.rng.Intn(5) == 0 {
		s = h.feeSubject(feeChainW) // a fee chain no other part of the history votes on
	} else {
		s = h.newSubject(paths[h.rng.Intn(5)])
	}
	votedA, votedQ, closed := 0, false, false
	voted := map[*pk.Key]bool{}
	castW := func(k *pk.Key, who string) {
		inA := false
		for _, v := range sa {
			if v == k {
				inA = true
			}
		}
		isQ := k == q
		var viewBefore uint64
		if s.path == "fee" {
			viewBefore, _ = h.w.Fee(s.chain)
		}
		o := h.w.Do(func() *nat.CallRecord {
			switch s.path {
			case "signature":
				return h.w.AddSignature(k, s.side, s.subj, []byte{1, 2, 3})
			case "fee":
				return h.w.UpdateFee(k, s.chain, s.view, big.NewInt(int64(1+h.rng.Intn(1000))))
			}
			return h.w.Vote(s.im, k)
		})
		r.Eval(1)
		released := 0
		switch s.path {
		case "signature":
			released = cs.QuorumEvents(o.Rec)
		case "fee":
			va, _ := h.w.Fee(s.chain)
			released = int(va - viewBefore)
		default:
			n, _, _ := o.TouchedUnder(scom.REQUEST)
			released = len(n)
			if len(o.Rec.CrossHashes) > released {
				released = len(o.Rec.CrossHashes)
			}
		}
		h.logf("window %s voter=%s/%x -> ok=%v err=%q released=%d touched=%d (validator votes %d of %d, quitting voted=%v)", s.path, who, k.Addr[:3], o.Rec.Ok, o.Rec.Err, released, len(o.Touched()), votedA, nA, votedQ)
		r.Count("window_calls:"+who, 1)
		h.shape += "w"
		if who == "quitting-validator" && !voted[k] && !closed && votedA == cs.Threshold(nA)-1 {
			r.Count("window_quitting_first_vote_at_quorum_minus_one", 1)
		}
		if (who == "candidate-peer" || who == "blacklisted-peer") && !closed && votedA == cs.Threshold(nA)-1 {
			r.Count("window_outsider_first_vote_at_quorum_minus_one", 1)
		}
		// bookkeeping of accepted votes
		if o.Rec.Ok && !voted[k] {
			voted[k] = true
			if inA {
				votedA++
			}
			if isQ {
				votedQ = true
			}
		}
		cntB := votedA
		if votedQ {
			cntB++
		}
		switch {
		case closed:
			if released != 0 {
				h.violation(s.path+" released-again", fmt.Sprintf("window: %d more release(s) after the release", released))
			}
		case !inA && !isQ: // strict outsiders under both readings
			if released != 0 {
				h.violation(s.path+" outsider-vote-released", "window: "+who)
			} else if !o.Unchanged() {
				h.violation(s.path+" outsider-vote-changed-state", fmt.Sprintf("window: %s ok=%v touched=%v", who, o.Rec.Ok, o.Touched()))
			}
		default:
			okA := votedA >= cs.Threshold(nA)
			okB := cntB >= cs.Threshold(nB)
			if released > 1 || (released == 1 && !okA && !okB) {
				h.violation(s.path+" released-below-threshold", fmt.Sprintf("window: released=%d by %s with %d of %d validators (+ quitting node voted=%v): premature whether or not the quitting node still counts as a validator", released, who, votedA, nA, votedQ))
				return
			}
			if inA && !o.Rec.Ok {
				h.violation(s.path+" validator-vote-refused", "window: "+o.Rec.Err)
				return
			}
			if inA && released == 0 && okA && okB {
				h.violation(s.path+" no-single-release-at-threshold", fmt.Sprintf("window: %d of %d validators voted, no release", votedA, nA))
				return
			}
			if isQ {
				if o.Rec.Ok {
					r.Count("window_quitting_vote_accepted", 1)
				} else {
					r.Count("window_quitting_vote_refused", 1)
				}
			}
		}
		if released == 1 {
			closed = true
			r.Count("window_released", 1)
		}
	}
	vals := append([]*pk.Key{}, sa...)
	h.rng.Shuffle(len(vals), func(i, j int) { vals[i], vals[j] = vals[j], vals[i] })
	c := cs.Threshold(nA) - 1
	for i := 0; i < c && !h.bad; i++ {
		castW(vals[i], "validator")
	}
	odd := []struct {
		k   *pk.Key
		who string
	}{{q, "quitting-validator"}, {cand, "candidate-peer"}, {black, "blacklisted-peer"}, {h.outs[0], "outsider"}}
	h.rng.Shuffle(len(odd), func(i, j int) { odd[i], odd[j] = odd[j], odd[i] })
	for _, x := range odd {
		if !h.bad {
			castW(x.k, x.who)
		}
	}
	for i := c; i < len(vals) && i < c+2 && !h.bad; i++ {
		castW(vals[i], "validator")
	}
	if !h.bad {
		castW(q, "quitting-validator")
	}
	r.Count("window_scripts", 1)
}

type tplT struct {
	w     *cs.World
	snap  *cs.Snapshot
	spare []*pk.Key
	outs  []*pk.Key
	uses  int
	// wallet accounts that register some of the spare keys when they become validators
	spareWallet map[*pk.Key]*pk.Key
}

var pool = map[int]*tplT{}

func template(r *kit.Run, n int, gen int) *tplT {
	t := pool[n]
	if t != nil && t.uses < 200 {
		t.uses++
		return t
	}
	krng := r.Rand(fmt.Sprintf("keys-%d-%d", n, gen))
	owner := pk.NewKey(krng)
	// every second validator's pool entry is registered by a separate wallet account (registered
	// address != address of the node key), as on a live network; the wallets are not validators
	vals := pk.NewKeys(krng, n)
	wallets := make([]*pk.Key, n)
	for i := range wallets {
		if i%2 == 1 {
			wallets[i] = pk.NewKey(krng)
		}
	}
	w, err := cs.NewWorldWallets(config.NETWORK_ID_MAIN_NET, vals, wallets, owner)
	if err != nil {
		r.Inconclusive("world: " + err.Error())
		return nil
	}
	for _, s := range []cs.ChainSpec{{ID: srcVote, Router: utils.VOTE_ROUTER}, {ID: dstEth, Router: utils.ETH_ROUTER},
		{ID: srcRipple, Router: utils.RIPPLE_ROUTER, Extra: cs.RippleExtra(owner.Addr, 1, 2, 3, [][]byte{{2, 1}, {2, 2}, {2, 3}}, big.NewInt(10))}} {
		if err := w.RegisterAndApprove(s); err != nil {
			r.Inconclusive("setup: " + err.Error())
			return nil
		}
	}
	if rec := w.RegisterAsset(owner, srcRipple, map[uint64][]byte{dstEth: {9, 9}}, map[uint64][]byte{dstEth: {8, 8}}); !rec.Ok {
		r.Inconclusive("registerAsset: " + rec.Err)
		return nil
	}
	t = &tplT{w: w, snap: w.Snapshot(), spare: pk.NewKeys(krng, 4), outs: pk.NewKeys(krng, 3), uses: 1, spareWallet: map[*pk.Key]*pk.Key{}}
	for i, k := range t.spare {
		if i%2 == 0 {
			t.spareWallet[k] = pk.NewKey(krng)
		}
	}
	pool[n] = t
	r.Count("universes_built", 1)
	return t
}

func runHistory(r *kit.Run, rng *rand.Rand, n0, maxVals, idx int) {
	t := template(r, n0, idx)
	if t == nil {
		return
	}
	t.w.Restore(t.snap)
	h := &hist{r: r, rng: rng, w: t.w, vm: cs.NewVoteModel(), spare: append([]*pk.Key{}, t.spare...), outs: t.outs, maxVals: maxVals, spareWallet: t.spareWallet}
	t.w.E.Height = 100 + uint32(rng.Intn(30000000))
	// node-local configuration is a dimension: a quarter of the histories run with the event log off
	config.DefConfig.Common.EnableEventLog = rng.Intn(4) != 0
	defer func() { config.DefConfig.Common.EnableEventLog = true }()
	if !config.DefConfig.Common.EnableEventLog {
		r.Count("histories_with_event_log_disabled", 1)
	}
	paths := []string{"import/vote", "import/vote", "import/ripple", "signature", "signature", "fee"}
	for i := 0; i < 3; i++ {
		h.subs = append(h.subs, h.newSubject(paths[rng.Intn(5)]))
	}
	epochRate := []int{0, 8, 20}[rng.Intn(3)] // some histories have no epoch change, some many
	if n0 >= 5 && rng.Intn(5) == 0 {
		h.shrinkScript(paths)
	}
	nOps := 30 + 3*n0
	for i := 0; i < nOps && !h.bad; i++ {
		if rng.Intn(100) < epochRate {
			h.epochChange()
			continue
		}
		var s *subject
		switch x := rng.Intn(10); {
		case x == 0:
			s = h.newSubject(paths[rng.Intn(5)])
			h.subs = append(h.subs, s)
		case x == 1:
			s = h.feeSubject([]uint64{feeChainA, feeChainB}[rng.Intn(2)])
		default:
			// prefer open subjects, sometimes a closed one (votes after release)
			var open, closed []*subject
			for _, c := range h.subs {
				if c.closed {
					closed = append(closed, c)
				} else if c.path != "fee" || c.id == h.feeSubject(c.chain).id {
					open = append(open, c)
				}
			}
			if len(closed) > 0 && (len(open) == 0 || rng.Intn(5) == 0) {
				s = closed[rng.Intn(len(closed))]
			} else if len(open) > 0 {
				s = open[rng.Intn(len(open))]
			} else {
				s = h.newSubject(paths[rng.Intn(5)])
				h.subs = append(h.subs, s)
			}
		}
		k, who := h.pickVoter(s)
		h.cast(s, k, who)
	}
	if !h.bad && rng.Intn(4) == 0 {
		h.windowScript(paths)
	}
	if len(h.shape) > 90 {
		h.shape = h.shape[:90]
	}
	r.Distinct(n0, h.shape)
	r.Count("histories", 1)
	if idx < 2 {
		tr := h.trace
		if len(tr) > 14 {
			tr = tr[:14]
		}
		r.Sample(map[string]interface{}{"initial_validators": n0, "shape": h.shape, "first_calls": tr})
	}
}

// quittingWindow records (no verdict) how a validator that has called quitNode, but whose quit is
// not yet committed by commitDpos, is treated by the vote counter.
func quittingWindow(r *kit.Run) {
	rng := r.Rand("quitting-window")
	t := template(r, 5, 0)
	if t == nil {
		return
	}
	t.w.Restore(t.snap)
	w := t.w
	q := w.Vals[4]
	if rec := w.QuitNodeOnly(q); !rec.Ok {
		r.Set("observation_quitting_validator", "quitNode refused: "+rec.Err)
		return
	}
	p := cs.RandParam(rng, dstEth, []byte("quitting-window"))
	rec := w.Vote(cs.Import{Source: srcVote, Height: 1, Param: p}, q)
	r.Eval(1)
	r.Set("observation_quitting_validator", fmt.Sprintf("vote by a validator between its quitNode and the next commitDpos: ok=%v err=%q (not judged: the property speaks of current consensus validators, the window is an epoch-boundary question)", rec.Ok, rec.Err))
	w.Restore(t.snap)
}

func TestC25(t *testing.T) {
	r := kit.Start(t, "C25", "exploration")
	defer r.Finish()
	r.Rule("histories of 30+3N calls on main-net id over several concurrently open subjects on four vote-counting entry points (VOTE-router import, ripple-router import, addSignature, updateFee); voters: validators that have not voted, repeat voters, outsiders, former validators, future validators, the wallet accounts that registered validators' nodes (every second pool entry has a registered address different from the node-key address, in the genesis configuration and for candidates registered later); validator-set changes (add / remove through node_manager + commitDpos) between votes at rate 0, 8% or 20%; initial N = 4..10 (thorough ..25); distinct = (initial N, sequence of model verdicts and epoch changes)")
	rng := r.Rand("histories")
	nh := r.N(400, 8000)
	maxN := r.N(10, 25)
	for i := 0; i < nh && r.Violations() < 30; i++ {
		n0 := 4 + i%(maxN-3)
		runHistory(r, rng, n0, maxN+1, i)
	}
	quittingWindow(r)
	r.Assume("DESIGN §8 reading: with a changing validator set the release point is the first call by a current validator after which the number of distinct current validators who voted is >= ceil(2N/3), N and 'current' taken at the time of that call; a repeat voter can therefore trigger the release after the set shrank")
	r.Assume("a consensus validator is identified by the address derived from its node public key; the account that registered the node (PeerPoolItem.Address) is an outsider unless it is that same address")
	r.Assume("an outsider's call must neither count nor change state; whether it returns an error or a no-op success is recorded, not judged (after the release the vote router answers success without effect to anybody)")
	r.Assume("addSignature may still store a validator's signature after the quorum event (the property only limits the event); the other entry points must not change state after the release")
	r.Assume("validator-set changes inside the random part of the histories are atomic (quitNode/approveCandidate immediately followed by commitDpos). The window between quitNode and commitDpos is exercised by a directed scenario in which only what holds under both readings of 'current validator' for the quitting node is judged (a release is a violation iff it is premature whether or not the quitting node counts); approved candidates and blacklisted candidates are outsiders under every reading")
	n := int(r.Get("histories"))
	for _, p := range []string{"import/vote", "import/ripple", "signature", "fee"} {
		r.Require("released:"+p, n/16)
		r.Require("calls:"+p+":outsider", n/8)
		r.Require("calls:"+p+":counted", n/2)
	}
	r.Require("calls:import/vote:already-released", n/8)
	r.Require("calls:signature:already-released", n/8)
	r.Require("histories_with_event_log_disabled", n/8)
	r.Require("voter:repeat-voter", n)
	r.Require("window_quitting_first_vote_at_quorum_minus_one", n/16)
	r.Require("window_outsider_first_vote_at_quorum_minus_one", n/16)
	r.Require("window_released", n/16)
	r.Require("voter:former-validator", n/4)
	r.Require("voter:validator-wallet", n)
	r.Require("released_by:repeat-voter", n/12) // release triggered by a repeat voter after the set shrank
	r.Require("epoch_add", n/4)
	r.Require("epoch_remove", n/4)
	// every small set size must have seen a release; for the large sizes of the thorough tier (a
	// release needs up to 17 distinct validator votes inside one bounded voting round, which gets
	// rare for N = 2 mod 3 and N >= 23) the guard is on their sum
	large := 0
	for k := 4; k <= maxN; k++ {
		if k <= 16 {
			r.Require(fmt.Sprintf("released_at_N=%d", k), 1)
		} else {
			large += int(r.Get(fmt.Sprintf("released_at_N=%d", k)))
		}
	}
	if maxN > 16 {
		r.Count("released_at_N>16", large)
		r.Require("released_at_N>16", 20)
	}
}
