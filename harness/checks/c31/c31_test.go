// C31: Ontology and NEO light clients follow authenticated validator changes.
//
// ont: synthetic header sequences (any order, key heights announcing new peer sets) are submitted
// through the real header_sync entrance; after every call the check reads which headers were
// stored and which peer sets are recorded, and judges with an oracle written from the property:
// a header is stored only if >= 1/3 of the distinct members of the peer set recorded at the
// greatest key height below it validly signed it; peer sets are recorded only from stored headers.
// neo: the tracked (index, next-consensus) record changes only to a submitted header with a higher
// index whose witness script hashes to the tracked next-consensus and carries m distinct valid
// committee signatures.
package c31

import (
	"bytes"
	"fmt"
	"math/rand"
	"sort"
	"testing"

	"github.com/joeqian10/neo-gogogo/tx"
	otypes "github.com/ontio/ontology/core/types"
	pcommon "github.com/polynetwork/poly/common"
	cstates "github.com/polynetwork/poly/core/states"
	hscommon "github.com/polynetwork/poly/native/service/header_sync/common"
	"github.com/polynetwork/poly/native/service/header_sync/neo"
	"github.com/polynetwork/poly/native/service/header_sync/ont"
	"github.com/polynetwork/poly/native/service/utils"

	"verifharness/kit"
	"verifharness/kit/nat"
	"verifharness/kit/pk"
	"verifharness/synth/chains"
	"verifharness/synth/neosynth"
	"verifharness/synth/ontsynth"
)

const (
	netID    = 5
	ontChain = 3
	neoChain = 4
)

func newEnv(t *testing.T, rng *rand.Rand, router uint64, chainID uint64, name string) *nat.Env {
	e := nat.New(netID)
	if err := e.InitGovernance(pk.NewKeys(rng, 4)); err != nil {
		t.Fatal(err)
	}
	if err := chains.Register(e, chainID, router, name, 1, nil, nil); err != nil {
		t.Fatal(err)
	}
	return e
}

func rawValue(e *nat.Env, key []byte) []byte {
	item := e.GetRaw(key)
	if item == nil {
		return nil
	}
	v, err := cstates.GetValueFromRawStorageItem(item)
	if err != nil {
		return nil
	}
	return v
}

// ---------------------------------------------------------------------------------------------
// ont

// storedPeerSets reads every recorded key height and its peer-id set from contract storage.
func storedPeerSets(e *nat.Env) (map[uint32]map[string]bool, error) {
	kh, err := ont.GetKeyHeights(e.Service(), ontChain)
	if err != nil {
		return nil, err
	}
	out := map[uint32]map[string]bool{}
	for _, h := range kh.HeightList {
		v := rawValue(e, utils.ConcatKey(utils.HeaderSyncContractAddress, []byte(hscommon.CONSENSUS_PEER), utils.GetUint64Bytes(ontChain), utils.GetUint32Bytes(h)))
		if v == nil {
			return nil, fmt.Errorf("key height %d listed but no peer record", h)
		}
		cp := new(ont.ConsensusPeers)
		if err := cp.Deserialization(pcommon.NewZeroCopySource(v)); err != nil {
			return nil, err
		}
		ids := map[string]bool{}
		for id := range cp.PeerMap {
			ids[id] = true
		}
		out[h] = ids
	}
	return out, nil
}

func sameIDs(a, b map[string]bool) bool {
	if len(a) != len(b) {
		return false
	}
	for k := range a {
		if !b[k] {
			return false
		}
	}
	return true
}

type ontHdr struct {
	height   uint32
	hash     pcommon.Uint256
	raw      []byte
	newPeers map[string]bool // nil: no new chain config
	newKeys  []*pk.Key
	kinds    []ontsynth.EntryKind
	shape    string
	signSet  string // which set the signers were drawn from
	desc     map[string]interface{}
	h        *otypes.Header
	nKeys    int
	nSigs    int
}

type ontWorld struct {
	r      *kit.Run
	e      *nat.Env
	rng    *rand.Rand
	epochs map[uint32]map[string]bool // model: recorded peer sets by key height
	keys   map[uint32][]*pk.Key       // the private keys of each recorded set
	stored map[string]bool            // header hashes the model knows as stored
	byH    map[uint32]bool            // heights with a stored header
	salt   uint32
}

func (w *ontWorld) applicable(h uint32) (uint32, bool) {
	var best uint32
	found := false
	for k := range w.epochs {
		if k < h && (!found || k > best) {
			best, found = k, true
		}
	}
	return best, found
}

func kindsString(ks []ontsynth.EntryKind) []string {
	var out []string
	for _, k := range ks {
		out = append(out, k.String())
	}
	return out
}

func ontEpisode(t *testing.T, r *kit.Run, ep int, maxN int, steps int) {
	rng := r.Rand(fmt.Sprintf("ont-%d", ep))
	e := newEnv(t, rng, utils.ONT_ROUTER, ontChain, "ont")
	w := &ontWorld{r: r, e: e, rng: rng, epochs: map[uint32]map[string]bool{}, keys: map[uint32][]*pk.Key{}, stored: map[string]bool{}, byH: map[uint32]bool{}}
	n0 := 1 + rng.Intn(maxN)
	g := uint32(100 + rng.Intn(100))
	set0 := pk.NewKeys(rng, n0)
	gen := ontsynth.Header(g, ontsynth.Payload(set0, 0, nil), 0)
	if rec := chains.SyncGenesis(e, ontChain, ontsynth.RawHeader(gen), nat.Operator(e.Validators)); !rec.Ok {
		r.Inconclusive("ont genesis: " + rec.Err)
		return
	}
	w.epochs[g] = ontsynth.IDs(set0)
	w.keys[g] = set0
	gh := gen.Hash()
	w.stored[string(gh[:])] = true
	w.byH[g] = true
	top := g

	build := func(height uint32) *ontHdr {
		w.salt++
		hd := &ontHdr{height: height}
		var payload []byte
		if rng.Intn(4) == 0 { // a key height: announce a new peer set
			nn := 1 + rng.Intn(maxN)
			nk := pk.NewKeys(rng, nn)
			var mangle func([]string) []string
			if rng.Intn(6) == 0 && nn > 1 { // one member listed twice: the distinct member set is what counts
				mangle = func(ids []string) []string { return append(ids, ids[0]) }
			}
			payload = ontsynth.Payload(nk, height, mangle)
			hd.newPeers = ontsynth.IDs(nk)
			hd.newKeys = nk
		} else {
			payload = ontsynth.Payload(nil, g, nil)
		}
		h := ontsynth.Header(height, payload, w.salt)
		hd.hash = pcommon.Uint256(h.Hash())
		kh, ok := w.applicable(height)
		var members []*pk.Key
		if ok {
			members = w.keys[kh]
			hd.signSet = fmt.Sprintf("applicable(key height %d)", kh)
		}
		// sometimes sign with the members of another recorded set (outsiders for this header)
		if rng.Intn(7) == 0 && len(w.keys) > 1 {
			var hs []uint32
			for k := range w.keys {
				if !ok || k != kh {
					hs = append(hs, k)
				}
			}
			sort.Slice(hs, func(i, j int) bool { return hs[i] < hs[j] })
			o := hs[rng.Intn(len(hs))]
			members = w.keys[o]
			hd.signSet = fmt.Sprintf("other(key height %d)", o)
		}
		n := len(members)
		need := (n + 2) / 3 // ceil(n/3): the smallest count that is "at least one third"
		var kinds []ontsynth.EntryKind
		rp := func(k ontsynth.EntryKind, c int) {
			for i := 0; i < c; i++ {
				kinds = append(kinds, k)
			}
		}
		reshape, keepSigs := false, -1
		var pad []string
		switch rng.Intn(10) {
		case 8:
			// enough genuine members LISTED as bookkeepers, but only 0 / 1 / need-1 signatures carried
			hd.shape = "listed-but-not-signing"
			k := need + rng.Intn(n-need+1)
			rp(ontsynth.Valid, k)
			reshape = true
			keepSigs = []int{0, 1, need - 1}[rng.Intn(3)]
			if keepSigs < 0 {
				keepSigs = 0
			}
			if keepSigs >= k && k > 0 {
				keepSigs = k - 1
			}
		case 9:
			// fewer than a third sign; the signature list is padded beyond the bookkeeper list
			hd.shape = "surplus-signatures"
			k := []int{1, need - 1, 0}[rng.Intn(3)]
			if k < 0 {
				k = 0
			}
			if k > n {
				k = n
			}
			rp(ontsynth.Valid, k)
			reshape = true
			total := []int{need, need + 1, n, n + 2}[rng.Intn(4)]
			for len(pad) < total-k || len(pad) == 0 {
				pad = append(pad, ontsynth.PadKinds[rng.Intn(len(ontsynth.PadKinds))])
			}
		case 0:
			hd.shape = "exactly-one-third"
			rp(ontsynth.Valid, need)
		case 1:
			hd.shape = "more-than-one-third"
			k := need + rng.Intn(n-need+1)
			rp(ontsynth.Valid, k)
		case 2:
			hd.shape = "just-below-one-third"
			if need > 0 {
				rp(ontsynth.Valid, need-1)
			}
		case 3:
			hd.shape = "below-plus-repeats"
			d := 1
			if need > 2 {
				d = 1 + rng.Intn(need-1)
			}
			rp(ontsynth.Valid, d)
			for len(kinds) < need+rng.Intn(2) {
				kinds = append(kinds, []ontsynth.EntryKind{ontsynth.DupSameSig, ontsynth.DupFreshSig}[rng.Intn(2)])
			}
		case 4:
			hd.shape = "below-plus-foreign"
			if need > 0 {
				rp(ontsynth.Valid, need-1)
			}
			rp(ontsynth.Foreign, 1+rng.Intn(2))
		case 5:
			hd.shape = "below-plus-invalid"
			if need > 0 {
				rp(ontsynth.Valid, need-1)
			}
			kinds = append(kinds, []ontsynth.EntryKind{ontsynth.BadSig, ontsynth.StolenSig}[rng.Intn(2)])
		case 6:
			hd.shape = "all-members"
			rp(ontsynth.Valid, n)
		case 7:
			hd.shape = "random"
			for i := rng.Intn(n + 3); i > 0; i-- {
				kinds = append(kinds, ontsynth.EntryKind(rng.Intn(int(ontsynth.NKinds))))
			}
		}
		hd.kinds = kinds
		es := ontsynth.Entries(rng, hd.hash[:], members, kinds)
		h.Bookkeepers, h.SigData = ontsynth.Split(es)
		if reshape {
			h.Bookkeepers, h.SigData = ontsynth.Reshape(rng, hd.hash[:], h.Bookkeepers, h.SigData, -1, keepSigs, pad)
		}
		if rng.Intn(5) == 0 {
			rng.Shuffle(len(h.SigData), func(i, j int) { h.SigData[i], h.SigData[j] = h.SigData[j], h.SigData[i] })
		}
		hd.raw = ontsynth.RawHeader(h)
		hd.h = h
		bk := []string{}
		for _, b := range es {
			bk = append(bk, b.Key.PubHex())
		}
		hd.nKeys, hd.nSigs = len(h.Bookkeepers), len(h.SigData)
		hd.desc = map[string]interface{}{"height": height, "hash": kit.Hex(hd.hash[:]), "shape": hd.shape, "entry_kinds": kindsString(kinds), "signers_drawn_from": hd.signSet,
			"bookkeepers": bk, "n_bookkeepers": len(h.Bookkeepers), "n_signatures": len(h.SigData), "signatures_kept": keepSigs, "signature_padding": pad, "announces_new_peer_set": hd.newPeers != nil, "raw_header_hex": kit.Hex(hd.raw)}
		return hd
	}

	for step := 0; step < steps; step++ {
		// choose heights: above the top, between key heights, at/below the lowest key height, on an existing height
		pick := func() uint32 {
			switch rng.Intn(10) {
			case 0:
				return g - uint32(rng.Intn(3)) // at or below the genesis key height: no set below it
			case 1, 2:
				if top > g+2 {
					return g + 1 + uint32(rng.Intn(int(top-g))) // somewhere inside the known range (any order)
				}
			case 3:
				var hs []uint32
				for k := range w.epochs {
					hs = append(hs, k)
				}
				sort.Slice(hs, func(i, j int) bool { return hs[i] < hs[j] })
				return hs[rng.Intn(len(hs))] + uint32(rng.Intn(2)) // on / right after a key height
			}
			return top + 1 + uint32(rng.Intn(6))
		}
		var hs []*ontHdr
		k := 1
		if rng.Intn(6) == 0 {
			k = 2 + rng.Intn(2)
		}
		seenH := map[uint32]bool{}
		for i := 0; i < k; i++ {
			h := pick()
			if seenH[h] {
				continue
			}
			seenH[h] = true
			hs = append(hs, build(h))
		}
		var raws [][]byte
		for _, h := range hs {
			raws = append(raws, h.raw)
		}
		rec := chains.SyncHeaders(e, ontChain, raws)
		r.Eval(1)
		if rec.Ok {
			r.Count("ont_calls_ok", 1)
		} else {
			r.Count("ont_calls_refused", 1)
		}
		svc := e.Service()
		for _, h := range hs {
			_, err := ont.GetHeaderByHash(svc, ontChain, h.hash)
			isStored := err == nil
			kh, hasSet := w.applicable(h.height)
			nset := 0
			distinct := 0
			if hasSet {
				nset = len(w.epochs[kh])
			}
			bks, sigs := h.h.Bookkeepers, h.h.SigData
			if hasSet {
				distinct = ontsynth.DistinctValid(h.hash[:], w.epochs[kh], bks, sigs)
			}
			r.Distinct("ont", h.shape, fmt.Sprint(h.kinds), h.nKeys, h.nSigs, nset, hasSet, h.newPeers != nil, len(hs), isStored, h.signSet[:min(5, len(h.signSet))])
			r.Count("ont_shape_"+h.shape, 1)
			if !isStored {
				r.Count("ont_headers_refused", 1)
				if hasSet && 3*distinct < nset {
					r.Count("ont_refused_below_one_third", 1)
				}
				continue
			}
			if w.stored[string(h.hash[:])] {
				continue
			}
			r.Count("ont_headers_stored", 1)
			replay := map[string]interface{}{"router": "ont", "call_ok": rec.Ok, "call_err": rec.Err, "header": h.desc, "applicable_key_height": kh, "has_applicable_set": hasSet,
				"applicable_set_size": nset, "distinct_valid_members": distinct, "model_key_heights": fmt.Sprint(keysOf(w.epochs))}
			switch {
			case !hasSet:
				viol(r, "ont:header-stored-without-any-peer-set-below", fmt.Sprintf("header at height %d stored although no peer set is recorded below it", h.height), replay)
				return
			case 3*distinct < nset:
				key := "ont:header-stored-below-one-third"
				if h.nSigs < h.nKeys {
					key = "ont:header-unsigned-bookkeeper-counted"
				} else if h.nSigs > h.nKeys {
					key = "ont:header-surplus-signature-counted"
				}
				for _, kd := range h.kinds {
					if kd == ontsynth.DupSameSig || kd == ontsynth.DupFreshSig {
						key = "ont:header-duplicate-signer-counted"
					}
				}
				viol(r, key, fmt.Sprintf("header at height %d stored with %d distinct valid member(s) of the %d-member set recorded at key height %d", h.height, distinct, nset, kh), replay)
				return
			}
			if h.shape == "exactly-one-third" && nset >= 1 {
				r.Count("ont_exactly_one_third_stored", 1)
				if r.Get("ont_exactly_one_third_stored") == 1 {
					r.Sample(map[string]interface{}{"router": "ont", "case": "header signed by exactly ceil(N/3) members stored", "N": nset, "signers": distinct, "height": h.height})
				}
			}
			w.stored[string(h.hash[:])] = true
			w.byH[h.height] = true
			if h.height > top {
				top = h.height
			}
			if h.newPeers != nil {
				w.epochs[h.height] = h.newPeers
				w.keys[h.height] = h.newKeys
				r.Count("ont_peer_sets_recorded", 1)
			}
		}
		// peer sets recorded in storage must be exactly those announced by stored headers
		got, err := storedPeerSets(e)
		if err != nil {
			viol(r, "ont:peer-records-unreadable", err.Error(), nil)
			return
		}
		for kh, ids := range got {
			want, ok := w.epochs[kh]
			var descs []interface{}
			for _, h := range hs {
				descs = append(descs, h.desc)
			}
			if !ok {
				viol(r, "ont:peer-set-recorded-without-stored-header", fmt.Sprintf("a peer set is recorded at key height %d but no accepted header announced it", kh),
					map[string]interface{}{"call_ok": rec.Ok, "headers": descs})
				return
			}
			if !sameIDs(ids, want) {
				viol(r, "ont:recorded-peer-set-differs-from-announced", fmt.Sprintf("peer set at key height %d differs from the one announced by the accepted header", kh),
					map[string]interface{}{"call_ok": rec.Ok, "headers": descs})
				return
			}
		}
		r.Count("ont_peer_record_checks", 1)
	}
}

func pkKeys(rng *rand.Rand, n int) []*pk.Key { return pk.NewKeys(rng, n) }

func min(a, b int) int {
	if a < b {
		return a
	}
	return b
}

func keysOf(m map[uint32]map[string]bool) []uint32 {
	var out []uint32
	for k := range m {
		out = append(out, k)
	}
	sort.Slice(out, func(i, j int) bool { return out[i] < out[j] })
	return out
}

// ---------------------------------------------------------------------------------------------
// neo

type neoTracked struct {
	Height uint32
	Next   string
}

func readNeo(e *nat.Env) *neoTracked {
	v := rawValue(e, utils.ConcatKey(utils.HeaderSyncContractAddress, []byte(hscommon.CONSENSUS_PEER), utils.GetUint64Bytes(neoChain)))
	if v == nil {
		return nil
	}
	c := new(neo.NeoConsensus)
	if err := c.Deserialization(pcommon.NewZeroCopySource(v)); err != nil {
		return nil
	}
	return &neoTracked{Height: c.Height, Next: c.NextConsensus.String()}
}

type neoHdr struct {
	index      uint32
	next       string
	scriptHash string
	distinct   int
	m          int
	raw        []byte
	shape      string
	kinds      []string
}

func (h *neoHdr) legit(t *neoTracked) bool {
	return h.index > t.Height && h.scriptHash == t.Next && h.distinct >= h.m
}

func neoEpisode(t *testing.T, r *kit.Run, ep int, maxN int, steps int) {
	rng := r.Rand(fmt.Sprintf("neo-%d", ep))
	e := newEnv(t, rng, utils.NEO_ROUTER, neoChain, "neo")
	newSet := func() *neosynth.Set {
		n := 2 + rng.Intn(maxN-1)
		m := []int{1, n - 1, n - (n-1)/3, 1 + rng.Intn(n-1)}[rng.Intn(4)]
		if m < 1 {
			m = 1
		}
		if m >= n {
			m = n - 1
		}
		return neosynth.NewSet(rng, n, m)
	}
	sets := map[string]*neosynth.Set{}
	cur := newSet()
	sets[cur.Hash.String()] = cur
	i0 := uint32(100 + rng.Intn(1000))
	gen := neosynth.Header(i0, cur.Hash, 0)
	if rec := chains.SyncGenesis(e, neoChain, neosynth.RawHeader(gen), nat.Operator(e.Validators)); !rec.Ok {
		r.Inconclusive("neo genesis: " + rec.Err)
		return
	}
	if tr := readNeo(e); tr == nil || tr.Height != i0 || tr.Next != cur.Hash.String() {
		r.Inconclusive("neo genesis not readable")
		return
	}
	asc := func(n, k int) []int {
		p := rng.Perm(n)[:k]
		sort.Ints(p)
		return p
	}
	salt := uint32(0)
	build := func(before *neoTracked, signer *neosynth.Set, shape string) *neoHdr {
		salt++
		nx := newSet()
		sets[nx.Hash.String()] = nx
		idx := before.Height + 1 + uint32(rng.Intn(5))
		h := neosynth.Header(idx, nx.Hash, salt)
		script := signer
		n, m := len(signer.Keys), signer.M
		var kinds []neosynth.SlotKind
		who := asc(n, n)
		rp := func(k neosynth.SlotKind, c int) {
			for i := 0; i < c; i++ {
				kinds = append(kinds, k)
			}
		}
		switch shape {
		case "honest":
			k := m + rng.Intn(2)
			if k > n {
				k = n
			}
			who = asc(n, k)
			rp(neosynth.Valid, k)
		case "below":
			rp(neosynth.Valid, m-1)
		case "one-key-repeated":
			rp(neosynth.Valid, 1)
			rp([]neosynth.SlotKind{neosynth.DupSameSig, neosynth.DupFreshSig}[rng.Intn(2)], m-1+rng.Intn(2))
		case "below-plus-foreign":
			rp(neosynth.Valid, m-1)
			rp([]neosynth.SlotKind{neosynth.Foreign, neosynth.BadSig}[rng.Intn(2)], 1+rng.Intn(2))
			rng.Shuffle(len(kinds), func(a, b int) { kinds[a], kinds[b] = kinds[b], kinds[a] })
		case "below-plus-garbage":
			rp(neosynth.Valid, m-1)
			rp(neosynth.Garbage, 1+rng.Intn(n-m+2))
			if rng.Intn(2) == 0 {
				rng.Shuffle(len(kinds), func(a, b int) { kinds[a], kinds[b] = kinds[b], kinds[a] })
			}
		case "not-higher":
			h.Index = before.Height - uint32(rng.Intn(3))
			rp(neosynth.Valid, m)
			who = asc(n, m)
		case "no-change":
			h.NextConsensus = signer.Hash
			rp(neosynth.Valid, m)
			who = asc(n, m)
		case "other-committee":
			script = newSet()
			n, m = len(script.Keys), script.M
			who = asc(n, m)
			rp(neosynth.Valid, m)
		case "weaker-script":
			script = neosynth.FromKeys(signer.Keys, 1)
			who = asc(n, 1)
			rp(neosynth.Valid, 1)
		case "random":
			for i := rng.Intn(n + 2); i > 0; i-- {
				kinds = append(kinds, neosynth.SlotKind(rng.Intn(int(neosynth.NKinds))))
			}
			if rng.Intn(2) == 0 {
				who = rng.Perm(n)
			}
		}
		msg := neosynth.HeaderMessage(h)
		sigs := script.Sigs(rng, msg, kinds, who)
		h.Witness = &tx.Witness{InvocationScript: neosynth.Invocation(sigs), VerificationScript: script.Script}
		out := &neoHdr{index: h.Index, next: h.NextConsensus.String(), scriptHash: script.Hash.String(), raw: neosynth.RawHeader(h), shape: shape}
		// judged against the committee whose script the witness presents (if that is the tracked one)
		out.m = script.M
		out.distinct = script.DistinctValid(msg, sigs)
		for _, k := range kinds {
			out.kinds = append(out.kinds, k.String())
		}
		return out
	}
	shapes := []string{"honest", "honest", "below", "one-key-repeated", "below-plus-foreign", "below-plus-garbage", "not-higher", "no-change", "other-committee", "weaker-script", "random"}
	for step := 0; step < steps; step++ {
		before := readNeo(e)
		cur = sets[before.Next]
		if cur == nil {
			r.Inconclusive("neo: lost track of the committee")
			return
		}
		var hs []*neoHdr
		k := 1
		if rng.Intn(6) == 0 {
			k = 2
		}
		for i := 0; i < k; i++ {
			shape := shapes[rng.Intn(len(shapes))]
			if shape == "weaker-script" && cur.M == 1 {
				shape = "below"
			}
			hs = append(hs, build(before, cur, shape))
		}
		var raws [][]byte
		for _, h := range hs {
			raws = append(raws, h.raw)
		}
		rec := chains.SyncHeaders(e, neoChain, raws)
		after := readNeo(e)
		r.Eval(1)
		h0 := hs[0]
		changed := after == nil || after.Height != before.Height || after.Next != before.Next
		r.Distinct("neo", len(cur.Keys), cur.M, h0.shape, fmt.Sprint(h0.kinds), len(hs), rec.Ok, changed)
		r.Count("neo_shape_"+h0.shape, 1)
		if rec.Ok {
			r.Count("neo_calls_ok", 1)
		} else {
			r.Count("neo_calls_refused", 1)
		}
		var descs []interface{}
		for _, h := range hs {
			descs = append(descs, map[string]interface{}{"shape": h.shape, "index": h.index, "next_consensus": h.next, "witness_script_hash": h.scriptHash,
				"slot_kinds": h.kinds, "distinct_valid_committee_signers": h.distinct, "script_m": h.m, "raw_header_hex": kit.Hex(h.raw)})
		}
		replay := map[string]interface{}{"router": "neo", "tracked_before": before, "tracked_after": after, "call_ok": rec.Ok, "call_err": rec.Err, "headers": descs}
		if after == nil {
			viol(r, "neo:tracked-record-vanished", "consensus record unreadable after the call", replay)
			return
		}
		if !changed {
			r.Count("neo_unchanged", 1)
			if h0.shape == "honest" && len(hs) == 1 {
				r.Count("neo_honest_refused", 1)
				if r.Get("neo_honest_refused") <= 2 {
					fmt.Printf("note: honest neo header refused: %s\n", rec.Err)
				}
			}
			continue
		}
		r.Count("neo_changed", 1)
		// reachable tracked states through justified headers of the call, in order
		reach := []*neoTracked{before}
		for _, h := range hs {
			var add []*neoTracked
			for _, tr := range reach {
				if h.legit(tr) {
					add = append(add, &neoTracked{Height: h.index, Next: h.next})
				}
			}
			reach = append(reach, add...)
		}
		ok := false
		for _, tr := range reach[1:] {
			if tr.Height == after.Height && tr.Next == after.Next {
				ok = true
			}
		}
		if ok {
			if h0.shape == "honest" && r.Get("neo_sampled") == 0 {
				r.Count("neo_sampled", 1)
				r.Sample(map[string]interface{}{"router": "neo", "case": "honest validator change accepted", "before": before, "after": after, "n": len(cur.Keys), "m": cur.M})
			}
			continue
		}
		key := "neo:validator-change-not-justified"
		if len(hs) == 1 {
			switch {
			case h0.index != after.Height || h0.next != after.Next:
				key = "neo:change-to-unsubmitted-state"
			case h0.index <= before.Height:
				key = "neo:change-from-header-not-higher"
			case h0.scriptHash != before.Next:
				key = "neo:change-with-foreign-witness-script"
			case h0.distinct < h0.m:
				key = "neo:change-without-m-distinct-signatures"
			}
		}
		viol(r, key, fmt.Sprintf("tracked consensus moved %+v -> %+v without a justifying header", *before, *after), replay)
		return
	}
}

func TestC31(t *testing.T) {
	r := kit.Start(t, "C31", "exploration")
	defer r.Finish()
	r.Rule("ont: episodes = genesis peer set of N members, then headers at heights {above top, inside the known range, on/after key heights, at/below the lowest key height}, 1/4 announcing a new peer set, signer lists of shapes {exactly ceil(N/3), more, just below, below+repeats, below+foreign, below+invalid, all, bookkeepers listed but not signing (0/1/need-1 signatures), signature list padded beyond the bookkeeper list, random kind vectors}, signers drawn from the applicable or from another recorded set, 1-3 headers per call; neo: episodes = committee (n,m) then headers of shapes {honest change, below m, one key repeated, below+foreign/bad, not higher, no change, other committee's script, same keys 1-of-n script, random}, 1-2 per call; distinct = (router, shape, kind vector, set size, outcome)")
	r.Assume("ont: 'at least one third' is read as 3*d >= N where d = distinct members of the applicable set (recorded at the greatest key height strictly below the header) that are listed as bookkeepers and for which some listed signature verifies (ontology-crypto); N = number of distinct member ids of that set")
	r.Assume("ont: a header counts as accepted when it is readable by hash from the contract's storage after the call and was not before; only 'accepted => enough signers' and 'recorded peer set => announced by an accepted header' are asserted")
	r.Assume("neo: a change of the tracked (index, next-consensus) record must equal (index, next-consensus) of a submitted header with index > tracked, witness script hash == tracked next-consensus and >= m distinct committee members with a valid signature (m = the tracked script's threshold); honest headers refused by poly are not violations")
	maxN := r.N(10, 31)
	for ep := 0; ep < r.N(80, 700); ep++ {
		mn := maxN
		if ep%4 != 0 && mn > 10 {
			mn = 10
		}
		ontEpisode(t, r, ep, mn, r.N(40, 60))
		if r.Violations() > 5 {
			break
		}
	}
	for ep := 0; ep < r.N(30, 300); ep++ {
		neoEpisode(t, r, ep, r.N(7, 16), r.N(25, 40))
		if r.Violations() > 5 {
			break
		}
	}
	for ep := 0; ep < r.N(16, 150); ep++ {
		n3Episode(t, r, ep, r.N(7, 16), r.N(25, 40))
		n3lEpisode(t, r, ep, r.N(7, 16), r.N(25, 40))
		if r.Violations() > 5 {
			break
		}
	}
	r.Set("routers_covered", []string{"ont", "neo", "neo3", "neo3legacy"})
	r.Set("routers_uncovered", []string{})
	for _, R := range []string{"neo3", "neo3legacy"} {
		r.Require(R+"_changed", r.N(15, 200))
		r.Require(R+"_calls_refused", r.N(25, 400))
	}
	r.Require("ont_headers_stored", r.N(200, 3000))
	r.Require("ont_refused_below_one_third", r.N(200, 3000))
	r.Require("ont_exactly_one_third_stored", r.N(20, 300))
	r.Require("ont_peer_sets_recorded", r.N(40, 600))
	r.Require("ont_shape_below-plus-repeats", r.N(50, 500))
	r.Require("ont_shape_listed-but-not-signing", r.N(50, 500))
	r.Require("ont_shape_surplus-signatures", r.N(50, 500))
	r.Require("neo_changed", r.N(30, 400))
	r.Require("neo_calls_refused", r.N(50, 800))
	r.Require("neo_shape_one-key-repeated", r.N(10, 100))
	_ = bytes.Equal
}
