package workloads

import (
	"fmt"
	"math/rand"

	"verifharness/kit"
	"verifharness/kit/nat"
	"verifharness/kit/pk"

	"github.com/polynetwork/poly/common"
	"github.com/polynetwork/poly/native/service/governance/node_manager"
	"github.com/polynetwork/poly/native/service/utils"
)

// GovLists: node-governance calls whose parameters are LISTS (blackNode / whiteNode with several
// peers, updateConfig, candidate registration / approval / quit) on pools of 7-9 validators, so
// that list-shaped inputs, multi-entry pool maps and multi-voter tallies are exercised.
func GovLists(r *kit.Run, rng *rand.Rand, pal *Palette) {
	n := 7 + rng.Intn(3)
	vals := pk.NewKeys(rng, n)
	e := nat.New(3)
	e.Record = true
	if err := e.InitGovernance(vals); err != nil {
		r.Count("workload_setup_failed:govlists", 1)
		return
	}
	e.Height = 20
	nm := utils.NodeManagerContractAddress
	list := func(keys []*pk.Key, voter *pk.Key) []byte {
		p := &node_manager.PeerListParam{Address: voter.Addr}
		for _, k := range keys {
			p.PeerPubkeyList = append(p.PeerPubkeyList, k.PubHex())
		}
		sink := common.NewZeroCopySink(nil)
		p.Serialization(sink)
		return sink.Bytes()
	}
	// two new candidates so that the pool has candidate and consensus members
	cands := pk.NewKeys(rng, 2)
	for _, c := range cands {
		rp := &node_manager.RegisterPeerParam{PeerPubkey: c.PubHex(), Address: c.Addr}
		sink := common.NewZeroCopySink(nil)
		rp.Serialization(sink)
		e.Call(nm, "registerCandidate", sink.Bytes(), pk.Single(c))
		for _, v := range vals {
			ap := &node_manager.PeerParam{PeerPubkey: c.PubHex(), Address: v.Addr}
			s2 := common.NewZeroCopySink(nil)
			ap.Serialization(s2)
			e.Call(nm, "approveCandidate", s2.Bytes(), pk.Single(v))
		}
	}
	// black-list TWO peers in one proposal, voted by every validator in a seed-dependent order
	targets := []*pk.Key{vals[n-1], vals[n-2]}
	if rng.Intn(2) == 0 {
		targets = []*pk.Key{vals[n-2], cands[0], vals[n-1]}
	}
	order := rng.Perm(n)
	for _, i := range order {
		e.Call(nm, "blackNode", list(targets, vals[i]), pk.Single(vals[i]))
	}
	e.Height += 5
	// white-list them again (list of two), then an ordinary epoch change
	for _, i := range rng.Perm(n) {
		e.Call(nm, "whiteNode", list(targets[:1], vals[i]), pk.Single(vals[i]))
	}
	e.Height += 200
	e.Call(nm, "commitDpos", nil, pk.Single(vals[0]))
	// updateConfig by the (current) operator: whoever is consensus now
	for _, rec := range e.Log {
		Track(r, rec.Ok, "govlists:"+rec.Method, len(rec.WriteSet), len(rec.Notify))
	}
	r.Count("router_workload:govlists", 1)
	_ = fmt.Sprint
}
