package ccmsynth

import (
	"crypto/ecdsa"
	"encoding/json"
	"fmt"
	"math/big"
	"math/rand"

	ecom "github.com/ethereum/go-ethereum/common"
	etypes "github.com/ethereum/go-ethereum/core/types"
	ecrypto "github.com/ethereum/go-ethereum/crypto"
	"github.com/ethereum/go-ethereum/rlp"
	hsq "github.com/polynetwork/poly/native/service/header_sync/quorum"

	"github.com/polynetwork/poly/common/config"
	scom "github.com/polynetwork/poly/native/service/cross_chain_manager/common"
	"github.com/polynetwork/poly/native/service/utils"

	"verifharness/kit/nat"
	es "verifharness/synth/ethsynth"
)

// EVMSource is a proof-authenticated source chain of an Ethereum-family router inside a World:
// a synthetic world state whose cross-chain-manager contract account commits to messages, a trust
// root and a short canonical header chain (all headers carry the same state root) installed
// through the real header-sync contract. Kind "eth" needs the ethash seal bypass hook
// (header_sync/eth.VerifSealBypass = true, set by the caller); kind "bsc" seals really (Parlia).
type EVMSource struct {
	Kind    string
	Spec    ChainSpec
	CCMC    es.Addr
	State   *es.State
	Heights []uint64 // heights of the synced headers (all carry State.Root())
	w       *World
	sealed  bool
	qKeys   []*ecdsa.PrivateKey // kind "quorum": the Istanbul validators (header travels with every proof)
	qOut    *ecdsa.PrivateKey   // kind "quorum": a key that is not a validator
}

// EVMMessage is a message committed at one storage slot of the source contract.
type EVMMessage struct {
	P    *es.TxParam
	Slot es.Hash
}

const evmSealChainID = 56

// NewEVMSource prepares (but does not yet register) a source chain of the given kind and id.
func (w *World) NewEVMSource(rng *rand.Rand, kind string, id uint64) *EVMSource {
	s := &EVMSource{Kind: kind, w: w}
	rng.Read(s.CCMC[:])
	s.State = es.NewState(rng, s.CCMC, 4)
	s.Spec = ChainSpec{ID: id, Name: kind, BlocksToWait: 1, CCMC: s.CCMC[:]}
	return s
}

// Commit stores keccak256(message) at a fresh slot of the contract (before Seal) and returns the handle.
func (s *EVMSource) Commit(rng *rand.Rand, p *es.TxParam) EVMMessage {
	if s.sealed {
		panic("EVMSource.Commit after Seal")
	}
	slot := es.RandHash(rng)
	s.State.Commit(s.CCMC, slot, p.Serialize())
	return EVMMessage{P: p, Slot: slot}
}

// Seal registers the chain through side_chain_manager, installs the trust root and syncs n
// headers that commit to the state root.
func (s *EVMSource) Seal(rng *rand.Rand, n int) error {
	w := s.w
	ee := &es.Env{Env: w.E, Vals: w.Vals, NetID: netIDOf(w)}
	root := s.State.Root()
	s.sealed = true
	switch s.Kind {
	case "eth":
		s.Spec.Router = utils.ETH_ROUTER
		if err := w.RegisterAndApprove(s.Spec); err != nil {
			return err
		}
		forks := es.ForksFor(ee.NetID)
		g := es.NewRoot(rng, forks, 12000000, big.NewInt(1500000000000), 12000000)
		if rec := ee.SyncGenesis(s.Spec.ID, g.JSON()); !rec.Ok {
			return fmt.Errorf("eth genesis: %s", rec.Err)
		}
		parent := g
		for i := 0; i < n; i++ {
			h := es.Child(rng, forks, parent, es.ChildOpt{Root: &root, Dt: uint64(10 + rng.Intn(5))})
			if rec := ee.SyncHeaders(s.Spec.ID, h.JSON()); !rec.Ok {
				return fmt.Errorf("eth header %d: %s", i, rec.Err)
			}
			parent = h
			s.Heights = append(s.Heights, h.Number)
		}
	case "bsc", "hsc":
		f := es.Bsc
		if s.Kind == "hsc" {
			f = es.Hsc
		}
		v := 1 + rng.Intn(4)
		c, gen := es.NewPoSAChain(rng, f, evmSealChainID, 1+rng.Intn(v), v, v, 6000000)
		s.Spec.Router = f.Router
		s.Spec.Extra = f.ExtraInfoJSONEpoch(evmSealChainID, c.Epoch)
		if err := w.RegisterAndApprove(s.Spec); err != nil {
			return err
		}
		if rec := ee.SyncGenesis(s.Spec.ID, gen); !rec.Ok {
			return fmt.Errorf("%s genesis: %s", s.Kind, rec.Err)
		}
		parent := c.M.Root
		for i := 0; i < n; i++ {
			h := c.Next(rng, parent, es.HonestOpt{Root: &root})
			if h == nil {
				return fmt.Errorf("%s: no eligible sealer at header %d", s.Kind, i)
			}
			if rec := ee.SyncHeaders(s.Spec.ID, h.JSON()); !rec.Ok {
				return fmt.Errorf("%s header %d: %s", s.Kind, i, rec.Err)
			}
			parent = c.M.Add(parent, h)
			s.Heights = append(s.Heights, h.Number)
		}
	case "quorum":
		// 1..3 validators (F = 0, so the proposer seal alone is a quorum); the validator set is the
		// trust root installed by syncGenesisHeader; no header is synced: each proof carries its own
		// sealed Istanbul header, so the n "synced heights" are just n distinct header numbers.
		s.Spec.Router = utils.QUORUM_ROUTER
		if err := w.RegisterAndApprove(s.Spec); err != nil {
			return err
		}
		var addrs []ecom.Address
		for i, v := 0, 1+rng.Intn(3); i < v; i++ {
			k, err := ecdsa.GenerateKey(ecrypto.S256(), rng)
			if err != nil {
				return err
			}
			s.qKeys = append(s.qKeys, k)
			addrs = append(addrs, ecrypto.PubkeyToAddress(k.PublicKey))
		}
		out, err := ecdsa.GenerateKey(ecrypto.S256(), rng)
		if err != nil {
			return err
		}
		s.qOut = out
		gen, err := s.quorumHeader(0, ecom.Hash{}, 0)
		if err != nil {
			return err
		}
		if rec := ee.SyncGenesis(s.Spec.ID, gen); !rec.Ok {
			return fmt.Errorf("quorum genesis: %s", rec.Err)
		}
		base := uint64(100 + rng.Intn(1000))
		for i := 0; i < n; i++ {
			base += uint64(1 + rng.Intn(5))
			s.Heights = append(s.Heights, base)
		}
	default:
		return fmt.Errorf("unknown EVM source kind %q", s.Kind)
	}
	return nil
}

// quorumHeader builds the JSON of an Istanbul header at the given number committing to root,
// sealed by validator number signer (no committed seals: with at most 3 validators F is 0).
func (s *EVMSource) quorumHeader(number uint64, root ecom.Hash, signer int) ([]byte, error) {
	var addrs []ecom.Address
	for _, k := range s.qKeys {
		addrs = append(addrs, ecrypto.PubkeyToAddress(k.PublicKey))
	}
	ist := &hsq.IstanbulExtra{Validators: addrs, Seal: []byte{}, CommittedSeal: [][]byte{}}
	payload, err := rlp.EncodeToBytes(ist)
	if err != nil {
		return nil, err
	}
	hdr := &etypes.Header{Root: root, Difficulty: big.NewInt(1), Number: new(big.Int).SetUint64(number), MixDigest: hsq.IstanbulDigest,
		Extra: append(make([]byte, hsq.IstanbulExtraVanity), payload...)}
	enc, err := rlp.EncodeToBytes(hsq.IstanbulFilteredHeader(hdr, false))
	if err != nil {
		return nil, err
	}
	key := s.qOut
	if signer >= 0 {
		key = s.qKeys[signer]
	}
	seal, err := ecrypto.Sign(ecrypto.Keccak256(ecrypto.Keccak256(enc)), key)
	if err != nil {
		return nil, err
	}
	ist.Seal = seal
	if payload, err = rlp.EncodeToBytes(ist); err != nil {
		return nil, err
	}
	hdr.Extra = append(make([]byte, hsq.IstanbulExtraVanity), payload...)
	return json.Marshal(hdr)
}

// hdrFor is the HeaderOrCrossChainMsg payload of an import at the given height (quorum only).
func (s *EVMSource) hdrFor(height uint32) []byte {
	if s.Kind != "quorum" {
		return nil
	}
	b, err := s.quorumHeader(uint64(height), ecom.Hash(s.State.Root()), int(height)%len(s.qKeys))
	if err != nil {
		panic("quorum header: " + err.Error())
	}
	return b
}

// netIDOf: the process-wide network id (set by NewWorld / the caller) is the World's network id.
func netIDOf(w *World) uint32 { return config.DefConfig.P2PNode.NetworkId }

// Import submits the deposit proof of m at the idx-th synced height (any height whose header
// carries the state root is a valid proof height) with the given message bytes as "extra".
func (s *EVMSource) Import(m EVMMessage, idx int, extra []byte) *nat.CallRecord {
	ee := &es.Env{Env: s.w.E, Vals: s.w.Vals}
	pr := s.State.Prove(s.CCMC, m.Slot)
	if extra == nil {
		extra = m.P.Serialize()
	}
	return ee.ImportWith(s.Spec.ID, uint32(s.Heights[idx]), pr.JSON(), extra, s.hdrFor(uint32(s.Heights[idx])))
}

// ImportRaw submits arbitrary proof bytes / height.
func (s *EVMSource) ImportRaw(height uint32, proof, extra []byte) *nat.CallRecord {
	ee := &es.Env{Env: s.w.E, Vals: s.w.Vals}
	return ee.ImportWith(s.Spec.ID, height, proof, extra, s.hdrFor(height))
}

// ImportOutsider (quorum only) submits the honest proof of m with a header at the idx-th height
// that is sealed by a key outside the validator set.
func (s *EVMSource) ImportOutsider(m EVMMessage, idx int) *nat.CallRecord {
	ee := &es.Env{Env: s.w.E, Vals: s.w.Vals}
	hdr, err := s.quorumHeader(s.Heights[idx], ecom.Hash(s.State.Root()), -1)
	if err != nil {
		panic("quorum header: " + err.Error())
	}
	return ee.ImportWith(s.Spec.ID, uint32(s.Heights[idx]), s.State.Prove(s.CCMC, m.Slot).JSON(), m.P.Serialize(), hdr)
}

// ProofJSON returns the honest proof document of m.
func (s *EVMSource) ProofJSON(m EVMMessage) []byte { return s.State.Prove(s.CCMC, m.Slot).JSON() }

// ToParam converts the synthetic message into poly's MakeTxParam (field by field).
func ToParam(t *es.TxParam) *scom.MakeTxParam {
	return &scom.MakeTxParam{TxHash: t.TxHash, CrossChainID: t.CrossChainID, FromContractAddress: t.FromContractAddress,
		ToChainID: t.ToChainID, ToContractAddress: t.ToContractAddress, Method: t.Method, Args: t.Args}
}
