// C40: VBFT participant selection is well formed.
//
// The real Server.buildParticipantConfig (through consensus/vbft/export_verif.go) is evaluated over
// (seed block, chain config) pairs; every returned selection is checked against the statement, every
// error return must be explained by the position table / the seed's draws, and every evaluation is
// repeated on deep-copied inputs by a node with another own index (validator, foreign index, 0, MaxUint32 = node outside the validator set), in this process and in a fresh process (map orders differ).
package c40

import (
	"bufio"
	"crypto/sha256"
	"encoding/hex"
	"encoding/json"
	"fmt"
	"math"
	"math/rand"
	"os"
	"os/exec"
	"testing"

	"verifharness/kit"
	"verifharness/kit/pk"

	"github.com/polynetwork/poly/common"
	"github.com/polynetwork/poly/common/config"
	"github.com/polynetwork/poly/consensus/vbft"
	vconfig "github.com/polynetwork/poly/consensus/vbft/config"
	"github.com/polynetwork/poly/core/types"
)

type cfgCase struct {
	Shape  string // how the table / C were derived
	N      int
	CC     *vconfig.ChainConfig
	GenC   uint32 // C as poly's own generator produced it
	Ids    []uint32
	Height uint32
}

// genConfig builds a chain config with poly's own generator and then (depending on shape) overrides C
// and skews the position table.
func genConfig(rng *rand.Rand, n int, shape string) *cfgCase {
	keys := pk.NewKeys(rng, n)
	peers := make([]*config.VBFTPeerInfo, n)
	ids := make([]uint32, n)
	used := map[uint32]bool{}
	sparse := rng.Intn(3) == 0
	for i, k := range keys {
		id := uint32(i + 1)
		if sparse {
			for {
				id = 1 + uint32(rng.Intn(5000))
				if !used[id] {
					break
				}
			}
		}
		used[id] = true
		ids[i] = id
		peers[i] = &config.VBFTPeerInfo{Index: id, PeerPubkey: k.PubHex(), Address: k.Addr.ToBase58()}
	}
	height := uint32(rng.Intn(1 << 20))
	vb := &config.VBFTConfig{BlockMsgDelay: 10000, HashMsgDelay: 10000, PeerHandshakeTimeout: 10, MaxBlockChangeView: 100}
	cc, err := vconfig.GenesisChainConfig(vb, peers, height)
	if err != nil {
		panic(err)
	}
	c := &cfgCase{Shape: shape, N: n, CC: cc, GenC: cc.C, Ids: ids, Height: height}
	maxC := uint32((n - 1) / 3)
	pickC := func() uint32 {
		switch rng.Intn(4) {
		case 0:
			return 0
		case 1:
			return uint32(rng.Intn(int(maxC) + 1))
		default:
			return maxC
		}
	}
	switch shape {
	case "generated": // exactly what the node would use
	case "equal":
		cc.C = pickC()
	case "skew-heavy": // a few peers own most positions, everybody keeps at least one
		cc.C = pickC()
		heavy := 1 + rng.Intn(3)
		keep := map[uint32]bool{}
		frac := []int{50, 80, 95, 99}[rng.Intn(4)]
		for i := range cc.PosTable {
			id := cc.PosTable[i]
			if !keep[id] {
				keep[id] = true // first position of every peer stays
				continue
			}
			if rng.Intn(100) < frac {
				cc.PosTable[i] = ids[rng.Intn(heavy)]
			}
		}
	case "skew-thin": // many positions for most, a single one for some
		cc.C = pickC()
		thin := map[uint32]bool{}
		for k := 1 + rng.Intn(n/2); k > 0; k-- {
			thin[ids[rng.Intn(n)]] = true
		}
		seen := map[uint32]bool{}
		for i := range cc.PosTable {
			id := cc.PosTable[i]
			if thin[id] {
				if seen[id] {
					cc.PosTable[i] = ids[rng.Intn(n)]
					for thin[cc.PosTable[i]] && len(thin) < n {
						cc.PosTable[i] = ids[rng.Intn(n)]
					}
				}
				seen[id] = true
			}
		}
	case "missing": // some peers have no position at all: the table may be unable to supply enough
		cc.C = pickC()
		gone := map[uint32]bool{}
		for k := 1 + rng.Intn(n-1); k > 0; k-- {
			gone[ids[rng.Intn(n)]] = true
		}
		var stay []uint32
		for _, id := range ids {
			if !gone[id] {
				stay = append(stay, id)
			}
		}
		if len(stay) == 0 {
			stay = ids[:1]
		}
		for i := range cc.PosTable {
			if gone[cc.PosTable[i]] {
				cc.PosTable[i] = stay[rng.Intn(len(stay))]
			}
		}
	case "short": // a very short table
		cc.C = pickC()
		l := 1 + rng.Intn(2*n)
		cc.PosTable = cc.PosTable[:l]
	}
	return c
}

func seedBlock(rng *rand.Rand) (*vbft.Block, uint32) {
	h := uint32(rng.Intn(1 << 24))
	vrf := make([]byte, 64)
	rng.Read(vrf)
	switch rng.Intn(12) {
	case 0:
		vrf = make([]byte, 64) // all zero
	case 1:
		for i := range vrf {
			vrf[i] = 0xff
		}
	case 2:
		vrf = vrf[:rng.Intn(64)]
	}
	var root common.Uint256
	rng.Read(root[:])
	blk := &vbft.Block{
		Block: &types.Block{Header: &types.Header{Height: h, BlockRoot: root}},
		Info:  &vconfig.VbftBlockInfo{Proposer: uint32(rng.Intn(50)), VrfValue: vrf},
	}
	return blk, h + 1
}

func copyCfg(cc *vconfig.ChainConfig) *vconfig.ChainConfig {
	b, err := json.Marshal(cc)
	if err != nil {
		panic(err)
	}
	out := &vconfig.ChainConfig{}
	if err := json.Unmarshal(b, out); err != nil {
		panic(err)
	}
	return out
}

func copyBlock(b *vbft.Block) *vbft.Block {
	hdr := *b.Block.Header
	info := *b.Info
	if b.Info.VrfValue != nil {
		info.VrfValue = append([]byte{}, b.Info.VrfValue...) // keep nil-ness: json renders nil and empty differently
	}
	return &vbft.Block{Block: &types.Block{Header: &hdr}, Info: &info}
}

func digest(p *vbft.BlockParticipantConfig, err error) string {
	if err != nil {
		return "error"
	}
	h := sha256.Sum256([]byte(fmt.Sprint(p.BlockNum, p.Vrf, p.Proposers, "|", p.Endorsers, "|", p.Committers)))
	return hex.EncodeToString(h[:8])
}

func describe(p *vbft.BlockParticipantConfig, err error) string {
	if err != nil {
		return "error: " + err.Error()
	}
	return fmt.Sprintf("P=%v E=%v C=%v", p.Proposers, p.Endorsers, p.Committers)
}

var shapes = []string{"generated", "equal", "equal", "skew-heavy", "skew-heavy", "skew-thin", "missing", "short"}

// walk enumerates the case list of (seed, tier): f is called for every (config, seed block).
func walk(rng *rand.Rand, nCfg, nSeeds int, f func(ci, si int, c *cfgCase, blk *vbft.Block, blkNum uint32)) {
	for ci := 0; ci < nCfg; ci++ {
		n := 4 + ci%37 // every N in 4..40 in turn
		shape := shapes[rng.Intn(len(shapes))]
		if ci < 37*2 && ci%2 == 0 {
			shape = "generated" // every N at least once exactly as the node generates it
		}
		c := genConfig(rng, n, shape)
		for si := 0; si < nSeeds; si++ {
			blk, num := seedBlock(rng)
			f(ci, si, c, blk, num)
		}
	}
}

func distinctIn(table []uint32) map[uint32]bool {
	m := map[uint32]bool{}
	for _, id := range table {
		m[id] = true
	}
	return m
}

func dups(l []uint32) bool {
	m := map[uint32]bool{}
	for _, x := range l {
		if m[x] {
			return true
		}
		m[x] = true
	}
	return false
}

// distinct ids the seed's draws k in [from, 512) reach
func drawsFrom(seed vconfig.VRFValue, table []uint32, from int) int {
	m := map[uint32]bool{}
	for k := from; k < 512; k++ {
		id := vbft.VerifDraw(seed, table, uint32(k))
		m[id] = true
	}
	return len(m)
}

func sizes(quick bool) (nCfg, nSeeds, childCfg int) {
	if quick {
		return 185, 60, 185
	}
	return 2220, 450, 400
}

func TestC40(t *testing.T) {
	r := kit.Start(t, "C40", "exploration")
	defer r.Finish()
	r.Rule("configs: every N in 4..40 in turn × shape {generated (poly's own C), equal stakes with C ≤ (N-1)/3, skew-heavy, skew-thin, missing peers, short table}, contiguous or sparse peer indices, table from vconfig.GenesisChainConfig (then skewed); seeds: blocks with random height / proposer / block root / VRF value (incl. all-zero, all-ones, short); distinct = (shape, N, C, outcome, sizes)")
	r.Assume("'leading proposers' = the first C entries of the returned proposer list (for C = 0 nothing is required to be excluded)")
	r.Assume("minimum sizes are read as lower bounds: |proposers| >= C+1, |endorsers| >= 2C, |committers| >= 2C")
	r.Assume("an error return is explained when the table holds fewer than max(C+1, 3C) distinct ids, or when the seed's draws (the real calcParticipant, indices below 512, role windows starting at 0 / MAX_PROPOSER_COUNT / MAX_PROPOSER_COUNT+MAX_ENDORSER_COUNT) do not reach C+1 resp. 3C+1 distinct ids; errors in between are counted, not flagged")
	r.Assume("strict reading of the statement: it speaks about the participants chosen for a round; an error return chooses nobody and is therefore no violation by itself. Configurations exactly as GenesisChainConfig generates them (C = N/3) for which every seed fails are recorded as an observation (coverage key generated_configs_that_never_select_N), not flagged")
	nCfg, nSeeds, childCfg := sizes(r.Quick())
	var digests []string
	type genStat struct{ ok, err int }
	generated := map[int]*genStat{} // N -> outcome counts for untouched generated configs
	walk(r.Rand("cases"), nCfg, nSeeds, func(ci, si int, c *cfgCase, blk *vbft.Block, blkNum uint32) {
		cc := c.CC
		C := cc.C
		// the node that derives the selection: a validator of the set, a node whose index is not in
		// the set, index 0, and a node outside the validator set altogether (observer / sync-only /
		// removed validator: Server.Index == math.MaxUint32) — in turn as primary and as second evaluation
		selves := []uint32{c.Ids[(ci+si)%len(c.Ids)], math.MaxUint32, 0, 4000000 + uint32(si), c.Ids[0]}
		self1 := selves[(ci+si)%len(selves)]
		self2 := selves[(ci+si+1+si%3)%len(selves)]
		for _, sf := range []uint32{self1, self2} {
			if sf == math.MaxUint32 {
				r.Count("evaluated_on_node_outside_validator_set", 1)
			} else if distinctIn(c.Ids)[sf] {
				r.Count("evaluated_on_validator_node", 1)
			} else {
				r.Count("evaluated_on_node_with_foreign_index", 1)
			}
		}
		p, err := vbft.VerifBuildParticipantConfig(self1, blkNum, blk, cc)
		r.Eval(1)
		if ci < childCfg {
			digests = append(digests, digest(p, err))
		}
		// determinism, same process: fresh server, deep-copied inputs
		p2, err2 := vbft.VerifBuildParticipantConfig(self2, blkNum, copyBlock(blk), copyCfg(cc))
		if digest(p, err) != digest(p2, err2) {
			key := "selection:nondeterministic-same-process"
			if self1 != self2 {
				key = "selection:differs-between-nodes" // every node derives the same selection from the same inputs
			}
			r.Violation(key, fmt.Sprintf("N=%d C=%d shape=%s: node with index %d and node with index %d derive different selections from the same inputs (%s vs %s)", c.N, C, c.Shape, self1, self2, describe(p, err), describe(p2, err2)),
				map[string]interface{}{"cfg": cc, "height": blk.Block.Header.Height, "vrf": kit.Hex(blk.Info.VrfValue)})
		}
		table := distinctIn(cc.PosTable)
		replay := func() interface{} {
			return map[string]interface{}{"shape": c.Shape, "N": c.N, "C": C, "pos_table": cc.PosTable, "block_height": blk.Block.Header.Height,
				"block_root": kit.Hex(blk.Block.Header.BlockRoot[:]), "prev_proposer": blk.Info.Proposer, "vrf": kit.Hex(blk.Info.VrfValue)}
		}
		if c.Shape == "generated" {
			if generated[c.N] == nil {
				generated[c.N] = &genStat{}
			}
			if err != nil {
				generated[c.N].err++
			} else {
				generated[c.N].ok++
			}
		}
		if err != nil {
			r.Count("errors", 1)
			r.Distinct(c.Shape, c.N, C, "error")
			need := int(C) + 1
			if 3*int(C) > need {
				need = 3 * int(C)
			}
			seed := vbft.VerifSelectionSeed(blk)
			switch {
			case len(table) < need:
				r.Count("error_table_cannot_supply", 1)
			case drawsFrom(seed, cc.PosTable, 0) >= int(C)+1 &&
				drawsFrom(seed, cc.PosTable, vconfig.MAX_PROPOSER_COUNT) >= 3*int(C)+1 &&
				drawsFrom(seed, cc.PosTable, vconfig.MAX_PROPOSER_COUNT+vconfig.MAX_ENDORSER_COUNT) >= 3*int(C)+1:
				r.Violation("selection:error-with-ample-draws", fmt.Sprintf("N=%d C=%d shape=%s: error %q although the seed's draws reach enough distinct peers in every role window", c.N, C, c.Shape, err), replay())
			default:
				r.Count("error_draws_fall_short", 1)
				if len(table) == 3*int(C) {
					r.Count("error_table_has_exactly_3C_peers", 1)
				}
			}
			return
		}
		r.Count("selections", 1)
		r.Distinct(c.Shape, c.N, C, len(p.Proposers), len(p.Endorsers), len(p.Committers))
		if ci < 3 && si == 0 {
			r.Sample(map[string]interface{}{"shape": c.Shape, "N": c.N, "C": C, "table_len": len(cc.PosTable), "proposers": p.Proposers, "endorsers": p.Endorsers, "committers": p.Committers})
		}
		roles := []struct {
			name string
			ids  []uint32
			min  int
		}{{"proposers", p.Proposers, int(C) + 1}, {"endorsers", p.Endorsers, 2 * int(C)}, {"committers", p.Committers, 2 * int(C)}}
		lead := map[uint32]bool{}
		for i := 0; i < int(C) && i < len(p.Proposers); i++ {
			lead[p.Proposers[i]] = true
		}
		for _, role := range roles {
			for _, id := range role.ids {
				if !table[id] {
					r.Violation("selection:id-not-in-table:"+role.name, fmt.Sprintf("N=%d C=%d shape=%s: %s contain %d which has no position", c.N, C, c.Shape, role.name, id), replay())
					break
				}
			}
			if dups(role.ids) {
				r.Violation("selection:duplicate-in-"+role.name, fmt.Sprintf("N=%d C=%d shape=%s: %v", c.N, C, c.Shape, role.ids), replay())
			}
			if len(role.ids) < role.min {
				r.Violation("selection:too-few-"+role.name, fmt.Sprintf("N=%d C=%d shape=%s: %d %s, minimum %d", c.N, C, c.Shape, len(role.ids), role.name, role.min), replay())
			}
			if role.name != "proposers" {
				for _, id := range role.ids {
					if lead[id] {
						r.Violation("selection:leading-proposer-among-"+role.name, fmt.Sprintf("N=%d C=%d shape=%s: leading proposers %v, %s %v", c.N, C, c.Shape, p.Proposers[:C], role.name, role.ids), replay())
						break
					}
				}
			}
		}
		if C > 0 {
			r.Count("selections_with_exclusion", 1)
		}
		if len(p.Endorsers) > 2*int(C) {
			r.Count("selections_with_2C_plus_1_endorsers", 1)
		}
	})
	// configurations exactly as the node generates them: if every seed fails the node can never
	// select participants for that validator-set size
	var deadN []int
	deadSeeds := 0
	for n := 4; n <= 40; n++ {
		g := generated[n]
		if g == nil {
			continue
		}
		r.Count("generated_config_sizes", 1)
		if g.ok == 0 && g.err > 0 {
			r.Count("generated_config_sizes_unbuildable", 1)
			deadN = append(deadN, n)
			deadSeeds += g.err
		}
	}
	if len(deadN) > 0 {
		// strict reading (see Assume): an error return chooses nobody, so it cannot violate the statement;
		// recorded as an observation about liveness of the generated configuration
		r.Set("generated_configs_that_never_select_N", deadN)
		r.Set("generated_configs_that_never_select_seeds_tried", deadSeeds)
	}
	// determinism across processes (fresh map seeds, fresh globals)
	self := os.Getenv("VERIF_SELF")
	if self == "" {
		self = os.Args[0]
	}
	out := pk.TempDir("c40child") + "/digests"
	defer os.RemoveAll(out[:len(out)-len("/digests")])
	cmd := exec.Command(self, "-test.run", "TestC40Child$", "-test.count", "1")
	cmd.Env = append(os.Environ(), "VERIF_C40_CHILD="+out)
	if b, err := cmd.CombinedOutput(); err != nil {
		r.Inconclusive(fmt.Sprintf("child process failed: %v: %s", err, string(b)))
	} else {
		f, err := os.Open(out)
		if err != nil {
			r.Inconclusive("child wrote no digests")
		} else {
			sc := bufio.NewScanner(f)
			i, diff := 0, 0
			for sc.Scan() {
				if i < len(digests) && sc.Text() != digests[i] {
					diff++
				}
				i++
			}
			f.Close()
			r.Count("cross_process_compared", i)
			if i != len(digests) {
				r.Inconclusive(fmt.Sprintf("child produced %d digests, parent %d", i, len(digests)))
			} else if diff > 0 {
				r.Violation("selection:nondeterministic-across-processes", fmt.Sprintf("%d of %d evaluations differ between two processes", diff, i), nil)
			}
		}
	}
	r.Require("selections", nCfg*nSeeds/3)
	r.Require("selections_with_exclusion", nCfg*nSeeds/5)
	r.Require("errors", 100)
	r.Require("error_table_cannot_supply", 20)
	r.Require("cross_process_compared", 1000)
	r.Require("generated_config_sizes", 37)
	r.Require("evaluated_on_node_outside_validator_set", nCfg*nSeeds/10)
	r.Require("evaluated_on_validator_node", nCfg*nSeeds/10)
	r.Require("evaluated_on_node_with_foreign_index", nCfg*nSeeds/10)
}

// TestC40Child recomputes the first configs of the same case list in a fresh process and writes one
// digest per evaluation (no evidence, no verdict).
func TestC40Child(t *testing.T) {
	out := os.Getenv("VERIF_C40_CHILD")
	if out == "" {
		t.Skip("child mode only")
	}
	r := kit.Start(t, "C40", "exploration") // only for Rand/Quick; never finished, writes nothing
	nCfg, nSeeds, childCfg := sizes(r.Quick())
	if childCfg < nCfg {
		nCfg = childCfg
	}
	f, err := os.Create(out)
	if err != nil {
		t.Fatal(err)
	}
	w := bufio.NewWriter(f)
	walk(r.Rand("cases"), nCfg, nSeeds, func(ci, si int, c *cfgCase, blk *vbft.Block, blkNum uint32) {
		p, err := vbft.VerifBuildParticipantConfig(9, blkNum, blk, c.CC)
		fmt.Fprintln(w, digest(p, err))
	})
	w.Flush()
	f.Close()
}
