package ethsynth

import (
	"encoding/hex"
	"fmt"
	"math/big"
	"math/rand"
	"strings"

	ecommon "github.com/ethereum/go-ethereum/common"
	"github.com/ethereum/go-ethereum/core/types"
	polyeth "github.com/polynetwork/poly/native/service/header_sync/eth"
)

// Hdr is an Ethereum block header (London-aware), independent of poly's and go-ethereum's types.
type Hdr struct {
	ParentHash  Hash
	UncleHash   Hash
	Coinbase    [20]byte
	Root        Hash
	TxHash      Hash
	ReceiptHash Hash
	Bloom       [256]byte
	Difficulty  *big.Int
	Number      uint64
	GasLimit    uint64
	GasUsed     uint64
	Time        uint64
	Extra       []byte
	MixDigest   Hash
	Nonce       [8]byte
	BaseFee     *big.Int // nil before London
}

// EmptyUncleHash is keccak256(rlp([])).
var EmptyUncleHash = Keccak([]byte{0xc0})

// Copy returns a deep copy.
func (h *Hdr) Copy() *Hdr {
	c := *h
	c.Difficulty = new(big.Int).Set(h.Difficulty)
	if h.BaseFee != nil {
		c.BaseFee = new(big.Int).Set(h.BaseFee)
	}
	c.Extra = append([]byte{}, h.Extra...)
	return &c
}

func (h *Hdr) rlpItems(seal bool) [][]byte {
	items := [][]byte{
		RlpBytes(h.ParentHash[:]), RlpBytes(h.UncleHash[:]), RlpBytes(h.Coinbase[:]), RlpBytes(h.Root[:]),
		RlpBytes(h.TxHash[:]), RlpBytes(h.ReceiptHash[:]), RlpBytes(h.Bloom[:]), RlpBig(h.Difficulty),
		RlpUint(h.Number), RlpUint(h.GasLimit), RlpUint(h.GasUsed), RlpUint(h.Time), RlpBytes(h.Extra),
	}
	if seal {
		items = append(items, RlpBytes(h.MixDigest[:]), RlpBytes(h.Nonce[:]))
	}
	if h.BaseFee != nil {
		items = append(items, RlpBig(h.BaseFee))
	}
	return items
}

// RLP is the consensus encoding of the header (15 fields, 16 with base fee).
func (h *Hdr) RLP() []byte { return RlpList(h.rlpItems(true)...) }

// Hash is the block hash keccak256(RLP(header)).
func (h *Hdr) Hash() Hash { return Keccak(h.RLP()) }

// PoWSealHash is the ethash seal hash: the header without mix digest and nonce.
func (h *Hdr) PoWSealHash() Hash { return Keccak(RlpList(h.rlpItems(false)...)) }

func hx(b []byte) string { return "\"0x" + hex.EncodeToString(b) + "\"" }
func hq(x *big.Int) string {
	return "\"0x" + x.Text(16) + "\""
}

// JSON is the web3 JSON form both poly's eth.Header and go-ethereum's types.Header unmarshal.
func (h *Hdr) JSON() []byte {
	var sb strings.Builder
	sb.WriteString("{")
	fmt.Fprintf(&sb, "\"parentHash\":%s,\"sha3Uncles\":%s,\"miner\":%s,\"stateRoot\":%s,\"transactionsRoot\":%s,\"receiptsRoot\":%s,\"logsBloom\":%s,",
		hx(h.ParentHash[:]), hx(h.UncleHash[:]), hx(h.Coinbase[:]), hx(h.Root[:]), hx(h.TxHash[:]), hx(h.ReceiptHash[:]), hx(h.Bloom[:]))
	fmt.Fprintf(&sb, "\"difficulty\":%s,\"number\":%s,\"gasLimit\":%s,\"gasUsed\":%s,\"timestamp\":%s,\"extraData\":%s,\"mixHash\":%s,\"nonce\":%s",
		hq(h.Difficulty), hq(new(big.Int).SetUint64(h.Number)), hq(new(big.Int).SetUint64(h.GasLimit)), hq(new(big.Int).SetUint64(h.GasUsed)),
		hq(new(big.Int).SetUint64(h.Time)), hx(h.Extra), hx(h.MixDigest[:]), hx(h.Nonce[:]))
	if h.BaseFee != nil {
		fmt.Fprintf(&sb, ",\"baseFeePerGas\":%s", hq(h.BaseFee))
	}
	sb.WriteString("}")
	return []byte(sb.String())
}

// ToPoly converts to poly's header type (for calling poly functions directly).
func (h *Hdr) ToPoly() *polyeth.Header {
	p := &polyeth.Header{
		ParentHash: ecommon.Hash(h.ParentHash), UncleHash: ecommon.Hash(h.UncleHash), Coinbase: ecommon.Address(h.Coinbase),
		Root: ecommon.Hash(h.Root), TxHash: ecommon.Hash(h.TxHash), ReceiptHash: ecommon.Hash(h.ReceiptHash), Bloom: types.Bloom(h.Bloom),
		Difficulty: new(big.Int).Set(h.Difficulty), Number: new(big.Int).SetUint64(h.Number), GasLimit: h.GasLimit, GasUsed: h.GasUsed,
		Time: h.Time, Extra: append([]byte{}, h.Extra...), MixDigest: ecommon.Hash(h.MixDigest), Nonce: types.BlockNonce(h.Nonce),
	}
	if h.BaseFee != nil {
		p.BaseFee = new(big.Int).Set(h.BaseFee)
	}
	return p
}

// ToGeth converts to go-ethereum v1.9.15's header type (legacy fields only).
func (h *Hdr) ToGeth() *types.Header {
	return &types.Header{
		ParentHash: ecommon.Hash(h.ParentHash), UncleHash: ecommon.Hash(h.UncleHash), Coinbase: ecommon.Address(h.Coinbase),
		Root: ecommon.Hash(h.Root), TxHash: ecommon.Hash(h.TxHash), ReceiptHash: ecommon.Hash(h.ReceiptHash), Bloom: types.Bloom(h.Bloom),
		Difficulty: new(big.Int).Set(h.Difficulty), Number: new(big.Int).SetUint64(h.Number), GasLimit: h.GasLimit, GasUsed: h.GasUsed,
		Time: h.Time, Extra: append([]byte{}, h.Extra...), MixDigest: ecommon.Hash(h.MixDigest), Nonce: types.BlockNonce(h.Nonce),
	}
}

// RandHash draws a random hash.
func RandHash(rng *rand.Rand) Hash {
	var h Hash
	rng.Read(h[:])
	return h
}

// NewRoot builds a trust-root header at the given number (base fee present iff London by number).
func NewRoot(rng *rand.Rand, forks Forks, number uint64, difficulty *big.Int, gasLimit uint64) *Hdr {
	h := &Hdr{ParentHash: RandHash(rng), UncleHash: EmptyUncleHash, Root: RandHash(rng), TxHash: RandHash(rng), ReceiptHash: RandHash(rng),
		Difficulty: new(big.Int).Set(difficulty), Number: number, GasLimit: gasLimit, GasUsed: gasLimit / 3,
		Time: 1500000000 + uint64(rng.Intn(1000000)), Extra: []byte("root")}
	rng.Read(h.Coinbase[:])
	if forks.IsLondon(number) {
		h.BaseFee = big.NewInt(int64(7 + rng.Intn(2000000000)))
	}
	return h
}

// ChildOpt steers Child. Zero value = random conforming choices.
type ChildOpt struct {
	Dt       uint64 // time delta (0 = draw from a boundary-biased set)
	Uncles   int    // 0 random, 1 no uncles, 2 uncles (affects the difficulty of ITS children)
	GasShape int    // 0 random, 1 keep, 2 max up, 3 max down
	Root     *Hash  // state root to commit to
	Skip     uint64 // NON-conforming on purpose: number = parent.number + 1 + Skip; every other field follows the rules for that number
}

var dts = []uint64{1, 2, 8, 9, 10, 13, 17, 18, 19, 26, 27, 45, 89, 90, 91, 500, 890, 891, 899, 900, 901, 1000, 5000}

// Child builds a header that conforms to every Ethereum header rule this package knows, on top
// of parent, under the given fork schedule.
func Child(rng *rand.Rand, forks Forks, parent *Hdr, o ChildOpt) *Hdr {
	c := &Hdr{ParentHash: parent.Hash(), UncleHash: EmptyUncleHash, Root: RandHash(rng), TxHash: RandHash(rng), ReceiptHash: RandHash(rng),
		Number: parent.Number + 1 + o.Skip}
	rng.Read(c.Coinbase[:])
	rng.Read(c.Nonce[:])
	c.MixDigest = RandHash(rng)
	if o.Root != nil {
		c.Root = *o.Root
	}
	dt := o.Dt
	if dt == 0 {
		dt = dts[rng.Intn(len(dts))]
	}
	c.Time = parent.Time + dt
	switch o.Uncles {
	case 0:
		if rng.Intn(3) == 0 {
			c.UncleHash = RandHash(rng)
		}
	case 2:
		c.UncleHash = RandHash(rng)
	}
	c.Extra = make([]byte, rng.Intn(33))
	rng.Read(c.Extra)
	// gas limit
	base := new(big.Int).SetUint64(parent.GasLimit)
	london := forks.IsLondon(c.Number)
	if london && !forks.IsLondon(parent.Number) {
		base.Mul(base, big.NewInt(SpecElasticity))
	}
	room := new(big.Int).Quo(base, big.NewInt(SpecGasLimitBound))
	room.Sub(room, big.NewInt(1)) // largest allowed |delta|
	gl := new(big.Int).Set(base)
	if room.Sign() > 0 {
		shape := o.GasShape
		if shape == 0 {
			shape = 1 + rng.Intn(4)
		}
		switch shape {
		case 2:
			gl.Add(gl, room)
		case 3:
			gl.Sub(gl, room)
		case 4:
			d := new(big.Int).Rand(rng, new(big.Int).Add(room, big.NewInt(1)))
			if rng.Intn(2) == 0 {
				d.Neg(d)
			}
			gl.Add(gl, d)
		}
	}
	max := new(big.Int).SetUint64(0x7fffffffffffffff)
	if gl.Cmp(max) > 0 {
		gl = max
	}
	if gl.Cmp(big.NewInt(SpecMinGasLimit)) < 0 {
		gl = big.NewInt(SpecMinGasLimit)
	}
	c.GasLimit = gl.Uint64()
	// gas used: boundary biased around the EIP-1559 target
	target := c.GasLimit / SpecElasticity
	switch rng.Intn(7) {
	case 0:
		c.GasUsed = 0
	case 1:
		c.GasUsed = c.GasLimit
	case 2:
		c.GasUsed = target
	case 3:
		c.GasUsed = target + 1
	case 4:
		if target > 0 {
			c.GasUsed = target - 1
		}
	default:
		c.GasUsed = uint64(rng.Int63n(int64(c.GasLimit>>1)+1)) * 2
		if c.GasUsed > c.GasLimit {
			c.GasUsed = c.GasLimit
		}
	}
	if london {
		c.BaseFee = SpecBaseFee(forks.IsLondon(parent.Number), parent.GasLimit, parent.GasUsed, parent.BaseFee)
	}
	c.Difficulty = SpecDifficulty(forks.Delay(c.Number), c.Time, parent.Time, parent.Difficulty, parent.Number, parent.UncleHash != EmptyUncleHash)
	return c
}

// Violations lists the Ethereum header rules (of those named in property C28 and checked by a
// light client without state) that child violates on top of parent. Empty = conforming.
func Violations(forks Forks, parent, c *Hdr) []string {
	var v []string
	if c.Number != parent.Number+1 {
		v = append(v, "number")
	}
	if c.ParentHash != parent.Hash() {
		v = append(v, "parent-hash")
	}
	if len(c.Extra) > 32 {
		v = append(v, "extra-too-long")
	}
	if c.Time <= parent.Time {
		v = append(v, "time-not-after-parent")
	}
	if c.GasLimit > 0x7fffffffffffffff {
		v = append(v, "gas-limit-cap")
	}
	if c.GasUsed > c.GasLimit {
		v = append(v, "gas-used-above-limit")
	}
	base := new(big.Int).SetUint64(parent.GasLimit)
	if forks.IsLondon(c.Number) {
		if !forks.IsLondon(parent.Number) {
			base.Mul(base, big.NewInt(SpecElasticity))
		}
		if c.BaseFee == nil {
			v = append(v, "base-fee-missing")
		} else if parent.BaseFee == nil && forks.IsLondon(parent.Number) {
			v = append(v, "parent-malformed")
		} else if c.BaseFee.Cmp(SpecBaseFee(forks.IsLondon(parent.Number), parent.GasLimit, parent.GasUsed, parent.BaseFee)) != 0 {
			v = append(v, "base-fee-wrong")
		}
	} else if c.BaseFee != nil {
		v = append(v, "base-fee-before-london")
	}
	if !SpecGasLimitOK(base, c.GasLimit) {
		v = append(v, "gas-limit-bound")
	}
	if c.Time > parent.Time {
		want := SpecDifficulty(forks.Delay(c.Number), c.Time, parent.Time, parent.Difficulty, parent.Number, parent.UncleHash != EmptyUncleHash)
		if c.Difficulty.Cmp(want) != 0 {
			v = append(v, "difficulty")
		}
	}
	return v
}
