// C01: binary codec (common.ZeroCopySink/ZeroCopySource and common/serialization) round-trips,
// both encoders agree byte for byte, truncated input / oversized length prefixes are reported as
// errors and nothing panics.
//
// The monitor drives the real writers and readers with typed value lists and observes only their
// return values, positions and produced bytes. Decisions (DESIGN §8): non-canonical var-uints and
// serialization.ReadBool's leniency are not judged; only bytes produced by the writers are compared
// across codecs.
package c01

import (
	"bytes"
	"fmt"
	"math/rand"
	"strings"
	"testing"

	"verifharness/kit"

	"github.com/polynetwork/poly/common"
	"github.com/polynetwork/poly/common/serialization"
)

type kind int

const (
	kU8 kind = iota
	kU16
	kU32
	kU64
	kI16
	kI32
	kI64
	kBool
	kByte
	kVarUint
	kVarBytes
	kString
	kAddress
	kHash
	kFixed64
	kRaw // fixed-length byte run written with WriteBytes, read with NextBytes(n)/ReadBytes(n)
	nKinds
)

var kindName = [...]string{"u8", "u16", "u32", "u64", "i16", "i32", "i64", "bool", "byte", "varuint", "varbytes", "string", "address", "hash", "fixed64", "raw"}

// field is one typed value: integers (any width, signed stored as two's complement) in u, byte-like
// values in b.
type field struct {
	k kind
	u uint64
	b []byte
}

func (f field) isBytes() bool {
	return f.k == kVarBytes || f.k == kString || f.k == kAddress || f.k == kHash || f.k == kRaw
}

func (f field) String() string {
	if f.isBytes() {
		if len(f.b) > 24 {
			return fmt.Sprintf("%s[%d]%x…", kindName[f.k], len(f.b), f.b[:24])
		}
		return fmt.Sprintf("%s[%d]%x", kindName[f.k], len(f.b), f.b)
	}
	return fmt.Sprintf("%s:%#x", kindName[f.k], f.u)
}

func sameValue(a, b field) bool {
	if a.isBytes() {
		return len(a.b) == len(b.b) && bytes.Equal(a.b, b.b)
	}
	return a.u == b.u
}

// ---------------------------------------------------------------------------------------------
// the two codecs under observation

// sinkWrite appends f through the zero-copy sink; it returns the size the writer *reported*
// (-1 when that writer reports nothing).
func sinkWrite(s *common.ZeroCopySink, f field) int64 {
	switch f.k {
	case kU8:
		s.WriteUint8(uint8(f.u))
	case kU16:
		s.WriteUint16(uint16(f.u))
	case kU32:
		s.WriteUint32(uint32(f.u))
	case kU64:
		s.WriteUint64(f.u)
	case kI16:
		s.WriteInt16(int16(f.u))
	case kI32:
		s.WriteInt32(int32(f.u))
	case kI64:
		s.WriteInt64(int64(f.u))
	case kBool:
		s.WriteBool(f.u != 0)
	case kByte:
		s.WriteByte(byte(f.u))
	case kVarUint:
		return int64(s.WriteVarUint(f.u))
	case kVarBytes:
		return int64(s.WriteVarBytes(f.b))
	case kString:
		return int64(s.WriteString(string(f.b)))
	case kAddress:
		var a common.Address
		copy(a[:], f.b)
		if f.b[0]&1 == 0 {
			s.WriteAddress(a)
		} else {
			a.Serialization(s)
		}
	case kHash:
		var h common.Uint256
		copy(h[:], f.b)
		s.WriteHash(h)
	case kFixed64:
		x := common.Fixed64(int64(f.u))
		x.Serialization(s)
	case kRaw:
		s.WriteBytes(f.b)
	}
	return -1
}

func streamWrite(w *bytes.Buffer, f field) error {
	switch f.k {
	case kU8:
		return serialization.WriteUint8(w, uint8(f.u))
	case kU16:
		return serialization.WriteUint16(w, uint16(f.u))
	case kU32:
		return serialization.WriteUint32(w, uint32(f.u))
	case kU64:
		return serialization.WriteUint64(w, f.u)
	case kI16:
		return serialization.WriteUint16(w, uint16(int16(f.u)))
	case kI32:
		return serialization.WriteUint32(w, uint32(int32(f.u)))
	case kI64, kFixed64:
		return serialization.WriteUint64(w, f.u)
	case kBool:
		return serialization.WriteBool(w, f.u != 0)
	case kByte:
		return serialization.WriteByte(w, byte(f.u))
	case kVarUint:
		return serialization.WriteVarUint(w, f.u)
	case kVarBytes:
		return serialization.WriteVarBytes(w, f.b)
	case kString:
		return serialization.WriteString(w, string(f.b))
	case kAddress:
		var a common.Address
		copy(a[:], f.b)
		return a.Serialize(w)
	case kHash:
		var h common.Uint256
		copy(h[:], f.b)
		return h.Serialize(w)
	case kRaw:
		return serialization.WriteBytes(w, f.b)
	}
	return nil
}

// sourceRead reads one value of the shape of want (kind, and length for raw runs) from the
// zero-copy source. failed = the reader reported eof / an error.
func sourceRead(s *common.ZeroCopySource, want field) (got field, failed bool) {
	got.k = want.k
	switch want.k {
	case kU8:
		v, eof := s.NextUint8()
		return field{k: want.k, u: uint64(v)}, eof
	case kU16:
		v, eof := s.NextUint16()
		return field{k: want.k, u: uint64(v)}, eof
	case kU32:
		v, eof := s.NextUint32()
		return field{k: want.k, u: uint64(v)}, eof
	case kU64:
		v, eof := s.NextUint64()
		return field{k: want.k, u: v}, eof
	case kI16:
		v, eof := s.NextInt16()
		return field{k: want.k, u: uint64(v)}, eof
	case kI32:
		v, eof := s.NextInt32()
		return field{k: want.k, u: uint64(v)}, eof
	case kI64:
		v, eof := s.NextInt64()
		return field{k: want.k, u: uint64(v)}, eof
	case kBool:
		v, eof := s.NextBool()
		if v {
			got.u = 1
		}
		return got, eof
	case kByte:
		v, eof := s.NextByte()
		return field{k: want.k, u: uint64(v)}, eof
	case kVarUint:
		v, eof := s.NextVarUint()
		return field{k: want.k, u: v}, eof
	case kVarBytes:
		v, eof := s.NextVarBytes()
		return field{k: want.k, b: v}, eof
	case kString:
		v, eof := s.NextString()
		return field{k: want.k, b: []byte(v)}, eof
	case kAddress:
		if want.b[0]&1 == 0 {
			v, eof := s.NextAddress()
			return field{k: want.k, b: v[:]}, eof
		}
		var a common.Address
		err := a.Deserialization(s)
		return field{k: want.k, b: a[:]}, err != nil
	case kHash:
		v, eof := s.NextHash()
		return field{k: want.k, b: v[:]}, eof
	case kFixed64:
		var x common.Fixed64
		err := x.Deserialization(s)
		return field{k: want.k, u: uint64(int64(x))}, err != nil
	case kRaw:
		v, eof := s.NextBytes(uint64(len(want.b)))
		return field{k: want.k, b: v}, eof
	}
	return got, true
}

func streamRead(r *bytes.Reader, want field) (got field, failed bool) {
	got.k = want.k
	switch want.k {
	case kU8:
		v, err := serialization.ReadUint8(r)
		return field{k: want.k, u: uint64(v)}, err != nil
	case kU16:
		v, err := serialization.ReadUint16(r)
		return field{k: want.k, u: uint64(v)}, err != nil
	case kU32:
		v, err := serialization.ReadUint32(r)
		return field{k: want.k, u: uint64(v)}, err != nil
	case kU64:
		v, err := serialization.ReadUint64(r)
		return field{k: want.k, u: v}, err != nil
	case kI16:
		v, err := serialization.ReadUint16(r)
		return field{k: want.k, u: uint64(int16(v))}, err != nil
	case kI32:
		v, err := serialization.ReadUint32(r)
		return field{k: want.k, u: uint64(int32(v))}, err != nil
	case kI64, kFixed64:
		v, err := serialization.ReadUint64(r)
		return field{k: want.k, u: v}, err != nil
	case kBool:
		v, err := serialization.ReadBool(r)
		if v {
			got.u = 1
		}
		return got, err != nil
	case kByte:
		v, err := serialization.ReadByte(r)
		return field{k: want.k, u: uint64(v)}, err != nil
	case kVarUint:
		v, err := serialization.ReadVarUint(r, 0)
		return field{k: want.k, u: v}, err != nil
	case kVarBytes:
		v, err := serialization.ReadVarBytes(r)
		return field{k: want.k, b: v}, err != nil
	case kString:
		v, err := serialization.ReadString(r)
		return field{k: want.k, b: []byte(v)}, err != nil
	case kAddress:
		if want.b[0]&1 == 0 {
			v, err := serialization.ReadAddress(r)
			return field{k: want.k, b: v[:]}, err != nil
		}
		var a common.Address
		err := a.Deserialize(r)
		return field{k: want.k, b: a[:]}, err != nil
	case kHash:
		if want.b[0]&1 == 0 {
			v, err := serialization.ReadHash(r)
			return field{k: want.k, b: v[:]}, err != nil
		}
		var h common.Uint256
		err := h.Deserialize(r)
		return field{k: want.k, b: h[:]}, err != nil
	case kRaw:
		v, err := serialization.ReadBytes(r, uint64(len(want.b)))
		return field{k: want.k, b: v}, err != nil
	}
	return got, true
}

// decoder abstracts "read the next value shaped like want, tell me where you are".
type decoder interface {
	read(want field) (field, bool)
	pos() int
}

type srcDec struct{ s *common.ZeroCopySource }

func (d srcDec) read(w field) (field, bool) { return sourceRead(d.s, w) }
func (d srcDec) pos() int                   { return int(d.s.Pos()) }

type strDec struct {
	r *bytes.Reader
	n int
}

func (d strDec) read(w field) (field, bool) { return streamRead(d.r, w) }
func (d strDec) pos() int                   { return d.n - d.r.Len() }

var codecNames = []string{"zerocopy", "stream"}

func newDecoder(codec int, b []byte) decoder {
	if codec == 0 {
		return srcDec{common.NewZeroCopySource(b)}
	}
	return strDec{bytes.NewReader(b), len(b)}
}

// ---------------------------------------------------------------------------------------------
// generators

var edgeU64 = []uint64{0, 1, 2, 0x7F, 0x80, 0xFC, 0xFD, 0xFE, 0xFF, 0x100, 0x7FFF, 0x8000, 0xFFFF, 0x10000,
	0x7FFFFFFF, 0x80000000, 0xFFFFFFFF, 0x100000000, 0x7FFFFFFFFFFFFFFF, 0x8000000000000000, 0xFFFFFFFFFFFFFFFE, 0xFFFFFFFFFFFFFFFF}

var edgeLen = []int{0, 1, 2, 0xFB, 0xFC, 0xFD, 0xFE, 0xFF, 0x100, 0x101}
var bigLen = []int{0xFFFE, 0xFFFF, 0x10000, 0x10001, 70 * 1024}

func genU64(rng *rand.Rand) uint64 {
	switch rng.Intn(4) {
	case 0:
		return edgeU64[rng.Intn(len(edgeU64))]
	case 1:
		return edgeU64[rng.Intn(len(edgeU64))] + uint64(rng.Intn(3)) - 1
	case 2:
		return rng.Uint64() >> uint(rng.Intn(64))
	}
	return rng.Uint64()
}

func genLen(rng *rand.Rand, allowBig bool) int {
	x := rng.Intn(100)
	switch {
	case x < 35:
		return edgeLen[rng.Intn(len(edgeLen))]
	case x < 38 && allowBig:
		return bigLen[rng.Intn(len(bigLen))]
	case x < 50:
		return 0x100 + rng.Intn(0x400)
	}
	return rng.Intn(48)
}

func genField(rng *rand.Rand, allowBig bool) field {
	k := kind(rng.Intn(int(nKinds)))
	// length-prefixed kinds are where the interesting boundaries are: draw them more often
	if rng.Intn(4) == 0 {
		k = []kind{kVarUint, kVarBytes, kString}[rng.Intn(3)]
	}
	f := field{k: k}
	switch k {
	case kU8, kByte:
		f.u = genU64(rng) & 0xFF
	case kU16:
		f.u = genU64(rng) & 0xFFFF
	case kU32:
		f.u = genU64(rng) & 0xFFFFFFFF
	case kU64, kVarUint:
		f.u = genU64(rng)
	case kI16:
		f.u = uint64(int16(genU64(rng)))
	case kI32:
		f.u = uint64(int32(genU64(rng)))
	case kI64, kFixed64:
		f.u = genU64(rng)
	case kBool:
		f.u = uint64(rng.Intn(2))
	case kVarBytes, kString, kRaw:
		f.b = make([]byte, genLen(rng, allowBig))
		fill(rng, f.b)
	case kAddress:
		f.b = make([]byte, common.ADDR_LEN)
		fill(rng, f.b)
	case kHash:
		f.b = make([]byte, common.UINT256_SIZE)
		fill(rng, f.b)
	}
	return f
}

// fill writes bytes that look like codec structure themselves (0xFD/0xFE/0xFF prefixes, zeros) as
// well as random ones, so that a reader that runs past a boundary picks up plausible data.
func fill(rng *rand.Rand, b []byte) {
	switch rng.Intn(4) {
	case 0:
		for i := range b {
			b[i] = []byte{0xFD, 0xFE, 0xFF, 0x00, 0x01}[rng.Intn(5)]
		}
	case 1:
		for i := range b {
			b[i] = byte(i)
		}
	default:
		rng.Read(b)
	}
}

// ---------------------------------------------------------------------------------------------

type encoded struct {
	fields []field
	bytes  []byte
	ends   []int // ends[i] = offset just after field i (observed on the stream writer)
}

func shapeOf(fs []field) string {
	var sb strings.Builder
	for _, f := range fs {
		sb.WriteString(kindName[f.k])
		if f.isBytes() {
			fmt.Fprintf(&sb, "%d", len(f.b))
		} else if f.k == kVarUint {
			fmt.Fprintf(&sb, "w%d", varWidthClass(f.u))
		}
		sb.WriteByte(',')
	}
	return sb.String()
}

// varWidthClass only labels evidence fingerprints (which magnitude class a value is in).
func varWidthClass(v uint64) int {
	switch {
	case v < 0xFD:
		return 1
	case v <= 0xFFFF:
		return 3
	case v <= 0xFFFFFFFF:
		return 5
	}
	return 9
}

type monitor struct {
	r *kit.Run
}

// encodeBoth writes the list through both encoders, checks (1) byte equality, reported sizes and
// per-field offsets.
func (m *monitor) encodeBoth(fs []field) (*encoded, bool) {
	r := m.r
	e := &encoded{fields: fs}
	sink := common.NewZeroCopySink(nil)
	var buf bytes.Buffer
	ok := true
	if p := kit.Catch(func() {
		for i, f := range fs {
			before := sink.Size()
			rep := sinkWrite(sink, f)
			added := int64(sink.Size() - before)
			if rep >= 0 && rep != added {
				r.Violation("sink-size-return-mismatch:"+kindName[f.k], fmt.Sprintf("field %d %v: writer reported %d bytes, sink grew by %d", i, f, rep, added), describe(fs))
				ok = false
			}
			if err := streamWrite(&buf, f); err != nil {
				r.Violation("stream-write-error:"+kindName[f.k], fmt.Sprintf("field %d %v: %v", i, f, err), describe(fs))
				ok = false
			}
			if uint64(buf.Len()) != sink.Size() {
				r.Violation("codecs-disagree-on-size:"+kindName[f.k], fmt.Sprintf("after field %d %v: sink %d bytes, stream writer %d bytes", i, f, sink.Size(), buf.Len()), describe(fs))
				ok = false
			}
			e.ends = append(e.ends, buf.Len())
			if !ok {
				return // report the first disagreement of a list only
			}
		}
	}); p != nil {
		r.Violation("encode-panic", fmt.Sprintf("%v", p), describe(fs))
		return nil, false
	}
	if !ok {
		return nil, false
	}
	e.bytes = append([]byte{}, buf.Bytes()...)
	if !bytes.Equal(sink.Bytes(), e.bytes) {
		at := 0
		for at < len(e.bytes) && at < len(sink.Bytes()) && e.bytes[at] == sink.Bytes()[at] {
			at++
		}
		fi := 0
		for fi < len(e.ends) && e.ends[fi] <= at {
			fi++
		}
		kn := "?"
		if fi < len(fs) {
			kn = kindName[fs[fi].k]
		}
		r.Violation("codecs-disagree-on-bytes:"+kn, fmt.Sprintf("first difference at offset %d (field %d): sink=%x… stream=%x…", at, fi, clip(sink.Bytes()[at:]), clip(e.bytes[at:])), describe(fs))
		return nil, false
	}
	r.Count("lists_encoded_identically", 1)
	return e, true
}

func clip(b []byte) []byte {
	if len(b) > 16 {
		return b[:16]
	}
	return b
}

func describe(fs []field) interface{} {
	out := []string{}
	for _, f := range fs {
		if f.isBytes() {
			out = append(out, fmt.Sprintf("%s:%s", kindName[f.k], kit.Hex(f.b)))
		} else {
			out = append(out, fmt.Sprintf("%s:%#x", kindName[f.k], f.u))
		}
		if len(out) > 40 {
			break
		}
	}
	return out
}

// decodePrefix decodes the typed list from in (= the first p bytes of an encoding whose field ends
// are ends) with one codec and applies oracle (2)/(3): fields wholly inside decode to their values
// at exactly their end offsets; the first field that does not fit must report eof/err.
func (m *monitor) decodePrefix(codec int, e *encoded, in []byte, what string) {
	r := m.r
	p := len(in)
	var viol string
	var key string
	pan := kit.Catch(func() {
		d := newDecoder(codec, in)
		for i, f := range e.fields {
			got, failed := d.read(f)
			if e.ends[i] <= p {
				if failed {
					key, viol = "complete-field-rejected:"+codecNames[codec]+":"+kindName[f.k], fmt.Sprintf("field %d %v lies wholly inside the %d-byte input but the reader reported eof/err", i, f, p)
					return
				}
				if !sameValue(got, f) {
					key, viol = "wrong-value:"+codecNames[codec]+":"+kindName[f.k], fmt.Sprintf("field %d: wrote %v, read %v", i, f, got)
					return
				}
				if d.pos() != e.ends[i] {
					key, viol = "wrong-consumption:"+codecNames[codec]+":"+kindName[f.k], fmt.Sprintf("field %d %v: reader position %d, bytes written end at %d", i, f, d.pos(), e.ends[i])
					return
				}
				continue
			}
			// first field cut by the truncation
			if !failed {
				key, viol = "truncated-field-accepted:"+codecNames[codec]+":"+kindName[f.k], fmt.Sprintf("field %d %v needs bytes up to offset %d, input has %d, reader returned %v without eof/err", i, f, e.ends[i], p, got)
				return
			}
			if d.pos() > p {
				key, viol = "position-beyond-input:"+codecNames[codec]+":"+kindName[f.k], fmt.Sprintf("reader position %d > input length %d", d.pos(), p)
				return
			}
			r.Count("cut_field_reported_"+codecNames[codec], 1)
			// observation only (not judged): does anything after the reported error still come back as data?
			for _, g := range e.fields[i+1:] {
				if g.isBytes() && len(g.b) == 0 && g.k == kRaw {
					continue
				}
				if _, f2 := d.read(g); !f2 {
					r.Count("obs_success_after_reported_error", 1)
				}
				break
			}
			return
		}
		if p == len(e.bytes) {
			// whole input consumed: one more byte must not exist
			if d.pos() != p {
				key, viol = "wrong-total-consumption:"+codecNames[codec], fmt.Sprintf("position %d after the last field, %d bytes were written", d.pos(), p)
				return
			}
			if _, failed := d.read(field{k: kU8}); !failed {
				key, viol = "read-past-end-accepted:"+codecNames[codec], "a byte was returned after the last written byte"
				return
			}
			r.Count("full_decodes_"+codecNames[codec], 1)
		}
	})
	if pan != nil {
		r.Violation("decode-panic:"+codecNames[codec]+":"+what, fmt.Sprintf("panic %v decoding %d of %d bytes", pan, p, len(e.bytes)),
			map[string]interface{}{"fields": describe(e.fields), "input": kit.Hex(clipN(in, 4096)), "prefix": p})
		return
	}
	if viol != "" {
		r.Violation(key, what+": "+viol, map[string]interface{}{"fields": describe(e.fields), "input": kit.Hex(clipN(in, 4096)), "prefix": p})
	}
}

func clipN(b []byte, n int) []byte {
	if len(b) > n {
		return b[:n]
	}
	return b
}

// prefixes returns the truncation points examined for an encoding.
func prefixes(rng *rand.Rand, e *encoded) []int {
	n := len(e.bytes)
	if n <= 4096 {
		out := make([]int, n)
		for i := range out {
			out[i] = i
		}
		return out
	}
	seen := map[int]bool{}
	add := func(p int) {
		if p >= 0 && p < n {
			seen[p] = true
		}
	}
	start := 0
	for _, end := range e.ends {
		for d := -1; d <= 1; d++ {
			add(end + d)
			add(start + d)
		}
		// around the end of a length prefix
		for d := 1; d <= 10; d++ {
			add(start + d)
		}
		start = end
	}
	for i := 0; i < 64; i++ {
		add(rng.Intn(n))
	}
	out := make([]int, 0, len(seen))
	for p := 0; p < n; p++ {
		if seen[p] {
			out = append(out, p)
		}
	}
	return out
}

func varuintBytes(v uint64) []byte {
	// produced by the real writer (its correctness is what the round-trip oracle checks)
	s := common.NewZeroCopySink(nil)
	s.WriteVarUint(v)
	return append([]byte{}, s.Bytes()...)
}

// oversize rewrites the length prefix of the length-prefixed field idx so that it announces more
// data than remains; every reader must report eof/err for that field (and the fields before it
// must still decode).
func (m *monitor) oversize(rng *rand.Rand, e *encoded, idx int) {
	r := m.r
	start := 0
	if idx > 0 {
		start = e.ends[idx-1]
	}
	f := e.fields[idx]
	oldPrefix := len(varuintBytes(uint64(len(f.b))))
	tail := e.bytes[start+oldPrefix:]
	rem := uint64(len(tail))
	cands := []uint64{rem + 1, rem + 2, rem + 0xFD, 0xFD, 0xFFFF, 0x10000, 0x1FFFFF, 0x200000, 0x200001, 0xFFFFFFFF, 0x100000000,
		0x7FFFFFFFFFFFFFFF, 0x8000000000000000, 0x8000000000000001, 0xFFFFFFFFFFFFFFFE, 0xFFFFFFFFFFFFFFFF}
	// values for which position+length wraps around 2^64 to a small number
	for _, pl := range []int{1, 3, 5, 9} {
		after := uint64(start + pl)
		cands = append(cands, -after, -after+1, -after+rem, -after+uint64(start))
	}
	for _, L := range cands {
		if L <= rem {
			continue
		}
		pre := varuintBytes(L)
		in := append(append(append([]byte{}, e.bytes[:start]...), pre...), tail...)
		e2 := &encoded{fields: e.fields[:idx+1], bytes: in}
		e2.ends = append(append([]int{}, e.ends[:idx]...), len(in)+1) // the field can never fit: force the "cut" branch
		for codec := 0; codec < 2; codec++ {
			before := r.Get("cut_field_reported_" + codecNames[codec])
			m.decodePrefix(codec, e2, in, "oversized-length-prefix")
			if r.Get("cut_field_reported_"+codecNames[codec]) > before {
				r.Count("oversize_prefix_rejected_"+codecNames[codec], 1)
			}
			r.Eval(1)
		}
		r.Distinct("oversize", kindName[f.k], len(pre), L > 0xFFFFFFFF, L >= 1<<63, start > 0)
	}
}

// direct reads with an explicit oversized count.
func (m *monitor) oversizeDirect(rng *rand.Rand) {
	r := m.r
	n := rng.Intn(300)
	b := make([]byte, n)
	rng.Read(b)
	off := 0
	if n > 0 {
		off = rng.Intn(n + 1)
	}
	rem := uint64(n - off)
	for _, L := range []uint64{rem + 1, rem + 0x100, 0xFFFFFFFF, 0x100000000, 0x7FFFFFFFFFFFFFFF, 0x8000000000000000, 0xFFFFFFFFFFFFFFFF,
		-uint64(off), -uint64(off) + 1, -uint64(off) + rem} {
		if L <= rem {
			continue
		}
		if p := kit.Catch(func() {
			s := common.NewZeroCopySource(b[:n:n])
			s.Skip(uint64(off))
			data, eof := s.NextBytes(L)
			if !eof {
				r.Violation("oversized-nextbytes-accepted", fmt.Sprintf("NextBytes(%d) with %d bytes left returned %d bytes without eof", L, rem, len(data)), kit.Hex(b))
			} else {
				r.Count("oversize_direct_rejected", 1)
			}
			if s.Pos() > uint64(n) {
				r.Violation("position-beyond-input:zerocopy:raw", fmt.Sprintf("Pos()=%d > %d", s.Pos(), n), kit.Hex(b))
			}
			s2 := common.NewZeroCopySource(b[:n:n])
			s2.Skip(uint64(off))
			if !s2.Skip(L) {
				r.Violation("oversized-skip-accepted", fmt.Sprintf("Skip(%d) with %d bytes left reported no eof", L, rem), kit.Hex(b))
			} else {
				r.Count("oversize_direct_rejected", 1)
			}
			rd := bytes.NewReader(b[off:])
			if got, err := serialization.ReadBytes(rd, L); err == nil {
				r.Violation("oversized-readbytes-accepted", fmt.Sprintf("ReadBytes(%d) with %d bytes left returned %d bytes without error", L, rem, len(got)), kit.Hex(b))
			} else {
				r.Count("oversize_direct_rejected", 1)
			}
		}); p != nil {
			r.Violation("decode-panic:oversized-direct", fmt.Sprintf("panic %v for count %d with %d bytes left at offset %d", p, L, rem, off), kit.Hex(b))
		}
		r.Eval(3)
		r.Distinct("oversize-direct", L > 0xFFFFFFFF, L >= 1<<63, off == 0, rem == 0)
	}
}

// corrupt: arbitrary corruption of an encoding is only required not to panic / run out of bounds.
func (m *monitor) corrupt(rng *rand.Rand, e *encoded) {
	r := m.r
	if len(e.bytes) == 0 {
		return
	}
	in := append([]byte{}, e.bytes...)
	for k := 1 + rng.Intn(3); k > 0; k-- {
		i := rng.Intn(len(in))
		switch rng.Intn(3) {
		case 0:
			in[i] ^= 1 << uint(rng.Intn(8))
		case 1:
			in[i] = []byte{0xFD, 0xFE, 0xFF, 0, 0x80}[rng.Intn(5)]
		default:
			in[i] = byte(rng.Intn(256))
		}
	}
	for codec := 0; codec < 2; codec++ {
		var bad string
		p := kit.Catch(func() {
			d := newDecoder(codec, in[:len(in):len(in)])
			for _, f := range e.fields {
				_, failed := d.read(f)
				if d.pos() > len(in) {
					bad = fmt.Sprintf("reader position %d > input length %d", d.pos(), len(in))
					return
				}
				if failed {
					r.Count("corrupt_rejected", 1)
					return
				}
			}
			r.Count("corrupt_decoded", 1)
		})
		if p != nil {
			r.Violation("decode-panic:"+codecNames[codec]+":corrupted", fmt.Sprintf("panic %v", p), map[string]interface{}{"fields": describe(e.fields), "input": kit.Hex(clipN(in, 4096))})
		} else if bad != "" {
			r.Violation("position-beyond-input:"+codecNames[codec]+":corrupted", bad, map[string]interface{}{"fields": describe(e.fields), "input": kit.Hex(clipN(in, 4096))})
		}
		r.Eval(1)
	}
}

func (m *monitor) checkList(rng *rand.Rand, fs []field, truncate bool) {
	r := m.r
	e, ok := m.encodeBoth(fs)
	r.Eval(1)
	if !ok {
		return
	}
	for _, f := range fs {
		r.Count("fields_"+kindName[f.k], 1)
	}
	r.Distinct("list", shapeOf(fs))
	full := e.bytes[:len(e.bytes):len(e.bytes)]
	for codec := 0; codec < 2; codec++ {
		m.decodePrefix(codec, e, full, "round-trip")
		r.Eval(1)
	}
	if !truncate {
		return
	}
	for _, p := range prefixes(rng, e) {
		// exact-capacity slice: an out-of-bounds reslice cannot silently succeed
		in := e.bytes[:p:p]
		for codec := 0; codec < 2; codec++ {
			m.decodePrefix(codec, e, in, "truncation")
		}
		// the same prefix with the rest of the bytes still in the backing array (capacity beyond
		// the length): a reader that ignores the length would return later data here
		m.decodePrefix(0, e, e.bytes[:p], "truncation-with-spare-capacity")
		r.Eval(3)
		r.Count("truncation_decodes", 3)
	}
}

func TestC01(t *testing.T) {
	r := kit.Start(t, "C01", "exploration")
	defer r.Finish()
	r.Rule("typed value lists of 1-12 fields over 16 primitive kinds (fixed ints, signed ints, bool, byte, var-uint, var-bytes, string, Address, Uint256, Fixed64, raw run), values and lengths biased to 0/0xFC/0xFD/0xFFFF/0x10000/2^32/2^63/2^64-1; each list: both encoders, both decoders, every prefix (all if <=4 KiB, field boundaries±1 + 64 sampled otherwise), oversized length prefixes, random corruption; plus byte strings / strings / raw runs of 2-4 MiB; distinct = sequence of (kind, byte length | var-uint width class)")
	r.Assume("non-canonical var-uints and serialization.ReadBool accepting any non-zero byte are not judged (DESIGN §8); only writer-produced bytes are compared across codecs")
	r.Assume("after a reader has reported eof/err the caller stops; data returned by later calls is recorded (obs_success_after_reported_error) but not judged")
	m := &monitor{r: r}
	rng := r.Rand("lists")

	// (a) every single kind at every boundary value: a declared finite grid
	for k := kind(0); k < nKinds; k++ {
		switch k {
		case kVarBytes, kString, kRaw:
			for _, n := range append(append([]int{}, edgeLen...), bigLen...) {
				b := make([]byte, n)
				fill(rng, b)
				m.checkList(rng, []field{{k: k, b: b}}, true)
			}
		case kAddress, kHash:
			for i := 0; i < 4; i++ {
				f := genField(rng, false)
				for f.k != k {
					f = genField(rng, false)
				}
				m.checkList(rng, []field{f}, true)
			}
		case kBool:
			m.checkList(rng, []field{{k: k, u: 0}}, true)
			m.checkList(rng, []field{{k: k, u: 1}}, true)
		default:
			for _, v := range edgeU64 {
				f := field{k: k, u: v}
				switch k {
				case kU8, kByte:
					f.u &= 0xFF
				case kU16:
					f.u &= 0xFFFF
				case kU32:
					f.u &= 0xFFFFFFFF
				case kI16:
					f.u = uint64(int16(v))
				case kI32:
					f.u = uint64(int32(v))
				}
				m.checkList(rng, []field{f}, true)
			}
		}
	}
	r.Count("grid_lists", int(r.Get("lists_encoded_identically")))

	// (b) random concatenations
	nLists := r.N(3000, 60000)
	for i := 0; i < nLists; i++ {
		nf := 1 + rng.Intn(12)
		fs := make([]field, nf)
		big := 0
		for j := range fs {
			fs[j] = genField(rng, big == 0)
			if len(fs[j].b) > 4096 {
				big++
			}
		}
		m.checkList(rng, fs, true)
		if i < 3 {
			r.Sample(map[string]interface{}{"fields": describe(fs)})
		}
	}

	// (c) oversized length prefixes inside lists
	nOver := r.N(400, 6000)
	done := 0
	for done < nOver {
		nf := 1 + rng.Intn(6)
		fs := make([]field, nf)
		var lp []int
		for j := range fs {
			fs[j] = genField(rng, false)
			if fs[j].k == kVarBytes || fs[j].k == kString {
				lp = append(lp, j)
			}
		}
		if len(lp) == 0 {
			continue
		}
		e, ok := m.encodeBoth(fs)
		if !ok {
			break
		}
		m.oversize(rng, e, lp[rng.Intn(len(lp))])
		m.corrupt(rng, e)
		done++
	}
	for i := 0; i < r.N(300, 5000); i++ {
		m.oversizeDirect(rng)
	}

	// (d) byte strings / strings / raw runs of 2 MiB .. 4 MiB: large values take a different route
	// through the streaming reader than small ones; both decoders must still return what was written
	hugeSizes := []int{2 * 1024 * 1024, 2*1024*1024 + 1, 3 * 1024 * 1024}
	if !r.Quick() {
		hugeSizes = []int{2*1024*1024 - 1, 2 * 1024 * 1024, 2*1024*1024 + 1, 2*1024*1024 + 0xFFFF, 3 * 1024 * 1024, 4*1024*1024 + 5}
	}
	for i, n := range hugeSizes {
		b := make([]byte, n)
		rng.Read(b)
		k := []kind{kVarBytes, kString, kRaw}[i%3]
		before := r.Get("full_decodes_stream")
		m.checkList(rng, []field{{k: kU16, u: 7}, {k: k, b: b}, {k: kVarUint, u: 0xFD}}, true)
		if r.Get("full_decodes_stream") > before {
			r.Count("huge_values_roundtrip_stream", 1)
		}
		r.Count("huge_values", 1)
	}
	r.Require("huge_values", len(hugeSizes))
	r.Require("huge_values_roundtrip_stream", len(hugeSizes))

	r.Require("lists_encoded_identically", nLists)
	r.Require("full_decodes_zerocopy", nLists)
	r.Require("full_decodes_stream", nLists)
	r.Require("truncation_decodes", r.N(100000, 2000000))
	r.Require("cut_field_reported_zerocopy", r.N(30000, 600000))
	r.Require("cut_field_reported_stream", r.N(30000, 600000))
	r.Require("oversize_prefix_rejected_zerocopy", nOver)
	r.Require("oversize_prefix_rejected_stream", nOver)
	r.Require("oversize_direct_rejected", 100)
	for k := kind(0); k < nKinds; k++ {
		r.Require("fields_"+kindName[k], 50)
	}
}
