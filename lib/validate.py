#!/usr/bin/env python3
"""validate.py <schema.json> <doc.json> — exits 0 if valid. Uses jsonschema from the tooling venv
(python3-vt) when the running interpreter lacks it; silently passes if none is available."""
import json, os, shutil, subprocess, sys
try:
    import jsonschema
except ImportError:
    vt = shutil.which("python3-vt")
    if vt and os.path.realpath(sys.executable) != os.path.realpath(vt) and not os.environ.get("VERIF_NO_VT"):
        os.environ["VERIF_NO_VT"] = "1"
        sys.exit(subprocess.call([vt, os.path.abspath(__file__)] + sys.argv[1:]))
    print("jsonschema unavailable; skipped")
    sys.exit(0)
try:
    jsonschema.validate(json.load(open(sys.argv[2])), json.load(open(sys.argv[1])))
except Exception as e:
    print("INVALID:", str(e)[:500])
    sys.exit(1)
print("valid")
