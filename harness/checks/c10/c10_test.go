// C10: layered state views (in-memory LevelDB <- OverlayDB <- CacheDB) agree with a three-map model.
//
// Model: base (persisted, live values only), ov (block layer: key -> value or tombstone),
// ca (transaction layer: key -> value or tombstone). Visible value of a key = the newest layer that
// mentions it; a tombstone (or empty value) reads as absent. Commit of a layer = apply exactly its
// entries to the layer below; Reset = drop the layer's entries.
package c10

import (
	"bytes"
	"fmt"
	"math/rand"
	"sort"
	"testing"

	"verifharness/kit"

	scommon "github.com/polynetwork/poly/core/store/common"
	"github.com/polynetwork/poly/core/store/leveldbstore"
	"github.com/polynetwork/poly/core/store/overlaydb"
	"github.com/polynetwork/poly/native/storage"
)

const stStorage = 0x05 // common.ST_STORAGE; asserted in the test against the real constant

var prefixes = []byte{0x04, stStorage, 0x06}
var alphabet = []byte{0x00, 'a', 'b', 0xff}

type layer map[string][]byte // nil / empty value = tombstone

type opRec struct {
	Op string `json:"op"`
	K  string `json:"k,omitempty"`
	V  string `json:"v,omitempty"`
}

type world struct {
	r   *kit.Run
	rng *rand.Rand

	store   *leveldbstore.LevelDBStore
	overlay *overlaydb.OverlayDB
	cache   *storage.CacheDB

	base, ov, ca layer
	trace        []opRec
	bad          bool
}

func (w *world) log(op string, k, v []byte) {
	w.trace = append(w.trace, opRec{op, kit.Hex(k), kit.Hex(v)})
}

func (w *world) fail(key, what string) {
	w.bad = true
	w.r.Violation(key, what, map[string]interface{}{"trace": w.trace, "model": map[string]interface{}{"base": dump(w.base), "overlay": dump(w.ov), "cache": dump(w.ca)}})
}

func dump(l layer) map[string]string {
	out := map[string]string{}
	for k, v := range l {
		if len(v) == 0 {
			out[kit.Hex([]byte(k))] = "<deleted>"
		} else {
			out[kit.Hex([]byte(k))] = kit.Hex(v)
		}
	}
	return out
}

func (w *world) rest() []byte {
	n := w.rng.Intn(4)
	k := make([]byte, n)
	for i := range k {
		k[i] = alphabet[w.rng.Intn(len(alphabet))]
	}
	return k
}

// restBiased prefers keys that already exist in some layer (to force collisions between layers)
func (w *world) fullKey(storageOnly bool) []byte {
	if w.rng.Intn(3) != 0 {
		var pool []string
		for _, l := range []layer{w.base, w.ov, w.ca} {
			for k := range l {
				if !storageOnly || k[0] == stStorage {
					pool = append(pool, k)
				}
			}
		}
		if len(pool) > 0 {
			sort.Strings(pool)
			return []byte(pool[w.rng.Intn(len(pool))])
		}
	}
	p := byte(stStorage)
	if !storageOnly && w.rng.Intn(3) == 0 {
		p = prefixes[w.rng.Intn(len(prefixes))]
	}
	return append([]byte{p}, w.rest()...)
}

func (w *world) val() []byte {
	if w.rng.Intn(12) == 0 {
		return nil // empty value: reads as absent
	}
	v := make([]byte, 1+w.rng.Intn(5))
	w.rng.Read(v)
	return v
}

func nonEmptyVal(rng *rand.Rand) []byte {
	v := make([]byte, 1+rng.Intn(5))
	rng.Read(v)
	return v
}

// visible value through the overlay (block layer + base) and through the cache (all three)
func (w *world) visOverlay(k string) []byte {
	if v, ok := w.ov[k]; ok {
		return v
	}
	return w.base[k]
}

func (w *world) visCache(k string) []byte {
	if v, ok := w.ca[k]; ok {
		return v
	}
	return w.visOverlay(k)
}

type kv struct {
	k string
	v []byte
}

func (w *world) liveUnder(prefix []byte, vis func(string) []byte, layers ...layer) []kv {
	seen := map[string]bool{}
	var out []kv
	for _, l := range layers {
		for k := range l {
			if seen[k] || !bytes.HasPrefix([]byte(k), prefix) {
				continue
			}
			seen[k] = true
			if v := vis(k); len(v) != 0 {
				out = append(out, kv{k, v})
			}
		}
	}
	sort.Slice(out, func(i, j int) bool { return out[i].k < out[j].k })
	return out
}

func collect(it scommon.StoreIterator, max int) ([]kv, error) {
	var out []kv
	for ok := it.First(); ok; ok = it.Next() {
		out = append(out, kv{string(it.Key()), append([]byte{}, it.Value()...)})
		if len(out) > max {
			break
		}
	}
	err := it.Error()
	it.Release()
	return out, err
}

func diffKV(got, want []kv) string {
	for i := 0; i < len(got) || i < len(want); i++ {
		if i >= len(got) {
			return fmt.Sprintf("missing #%d key %x (got %d, want %d entries)", i, want[i].k, len(got), len(want))
		}
		if i >= len(want) {
			return fmt.Sprintf("extra #%d key %x value %x (got %d, want %d entries)", i, got[i].k, got[i].v, len(got), len(want))
		}
		if got[i].k != want[i].k {
			return fmt.Sprintf("#%d is key %x, want key %x", i, got[i].k, want[i].k)
		}
		if !bytes.Equal(got[i].v, want[i].v) {
			return fmt.Sprintf("#%d key %x has value %x, want %x", i, got[i].k, got[i].v, want[i].v)
		}
	}
	return ""
}

// classify the join cases present under a prefix for one (mem, back) pair — evidence only
func (w *world) classify(prefix []byte, mem layer, backVis func(string) []byte, backLayers ...layer) {
	keys := map[string]bool{}
	for k := range mem {
		keys[k] = true
	}
	for _, l := range backLayers {
		for k := range l {
			keys[k] = true
		}
	}
	memN, backN := 0, 0
	for k := range keys {
		if !bytes.HasPrefix([]byte(k), prefix) {
			continue
		}
		mv, inMem := mem[k]
		bv := backVis(k)
		switch {
		case inMem && len(mv) == 0 && len(bv) != 0:
			w.r.Count("join_deleted_in_mem_live_in_backend", 1)
		case inMem && len(mv) == 0:
			w.r.Count("join_deleted_in_mem_absent_in_backend", 1)
		case inMem && len(bv) != 0:
			w.r.Count("join_overwritten_in_mem", 1)
		case inMem:
			w.r.Count("join_mem_only", 1)
		case len(bv) != 0:
			w.r.Count("join_backend_only", 1)
		}
		if inMem {
			memN++
		}
		if len(bv) != 0 {
			backN++
		}
	}
	if memN == 0 && backN > 0 {
		w.r.Count("join_empty_mem_side", 1)
	}
	if backN == 0 && memN > 0 {
		w.r.Count("join_empty_backend_side", 1)
	}
	if backN == 0 && memN == 0 {
		w.r.Count("join_both_sides_empty", 1)
	}
}

func (w *world) scanPrefix() []byte {
	switch w.rng.Intn(5) {
	case 0:
		return []byte{}
	case 1:
		return w.rest()
	}
	k := w.fullKey(true)[1:]
	if len(k) > 0 && w.rng.Intn(2) == 0 {
		k = k[:len(k)-1]
	}
	return k
}

func (w *world) step() {
	rng := w.rng
	r := w.r
	switch c := rng.Intn(100); {
	case c < 18: // tx-layer write
		k, v := w.fullKey(true), w.val()
		w.log("cache.Put", k[1:], v)
		w.cache.Put(append([]byte{}, k[1:]...), append([]byte{}, v...))
		w.ca[string(k)] = v
		r.Count("op_cache_put", 1)
	case c < 28:
		k := w.fullKey(true)
		w.log("cache.Delete", k[1:], nil)
		w.cache.Delete(append([]byte{}, k[1:]...))
		w.ca[string(k)] = nil
		r.Count("op_cache_delete", 1)
	case c < 43: // tx-layer read
		k := w.fullKey(true)
		w.log("cache.Get", k[1:], nil)
		got, err := w.cache.Get(append([]byte{}, k[1:]...))
		want := w.visCache(string(k))
		r.Count("op_cache_get", 1)
		if len(want) == 0 {
			r.Count("read_absent", 1)
		} else {
			r.Count("read_present", 1)
		}
		if err != nil || !bytes.Equal(got, want) && !(len(got) == 0 && len(want) == 0) {
			w.fail("cachedb-get-mismatch", fmt.Sprintf("CacheDB.Get(%x) = (%x, %v), model says %x", k[1:], got, err, want))
		}
	case c < 51: // block-layer write (any prefix)
		k, v := w.fullKey(false), w.val()
		w.log("overlay.Put", k, v)
		w.overlay.Put(append([]byte{}, k...), append([]byte{}, v...))
		w.ov[string(k)] = v
		r.Count("op_overlay_put", 1)
	case c < 56:
		k := w.fullKey(false)
		w.log("overlay.Delete", k, nil)
		w.overlay.Delete(append([]byte{}, k...))
		w.ov[string(k)] = nil
		r.Count("op_overlay_delete", 1)
	case c < 64:
		k := w.fullKey(false)
		w.log("overlay.Get", k, nil)
		got, err := w.overlay.Get(append([]byte{}, k...))
		want := w.visOverlay(string(k))
		r.Count("op_overlay_get", 1)
		if err != nil || !bytes.Equal(got, want) && !(len(got) == 0 && len(want) == 0) {
			w.fail("overlaydb-get-mismatch", fmt.Sprintf("OverlayDB.Get(%x) = (%x, %v), model says %x", k, got, err, want))
		}
	case c < 72: // tx-layer prefix scan
		p := w.scanPrefix()
		w.log("cache.NewIterator", p, nil)
		full := append([]byte{stStorage}, p...)
		want := w.liveUnder(full, w.visCache, w.ca, w.ov, w.base)
		for i := range want {
			want[i].k = want[i].k[1:] // CacheDB iterators strip the storage prefix
		}
		got, err := collect(w.cache.NewIterator(append([]byte{}, p...)), len(want)+5)
		r.Count("op_cache_scan", 1)
		r.Count("scan_entries", len(want))
		w.classify(full, w.ca, w.visOverlay, w.ov, w.base)
		if err != nil {
			w.fail("cachedb-iterator-error", err.Error())
		} else if d := diffKV(got, want); d != "" {
			w.fail("cachedb-scan-mismatch", fmt.Sprintf("CacheDB.NewIterator(%x): %s", p, d))
		}
	case c < 78: // block-layer prefix scan
		var p []byte
		switch rng.Intn(4) {
		case 0:
			p = []byte{}
		case 1:
			p = []byte{prefixes[rng.Intn(len(prefixes))]}
		default:
			p = w.fullKey(false)
			if rng.Intn(2) == 0 {
				p = p[:len(p)-1]
			}
		}
		w.log("overlay.NewIterator", p, nil)
		want := w.liveUnder(p, w.visOverlay, w.ov, w.base)
		got, err := collect(w.overlay.NewIterator(append([]byte{}, p...)), len(want)+5)
		r.Count("op_overlay_scan", 1)
		r.Count("scan_entries", len(want))
		w.classify(p, w.ov, func(k string) []byte { return w.base[k] }, w.base)
		if err != nil {
			w.fail("overlaydb-iterator-error", err.Error())
		} else if d := diffKV(got, want); d != "" {
			w.fail("overlaydb-scan-mismatch", fmt.Sprintf("OverlayDB.NewIterator(%x): %s", p, d))
		}
	case c < 84: // several live iterators stepped alternately, reads between creation and use
		w.interleavedScans()
	case c < 90: // commit the tx layer into the block layer
		w.log("cache.Commit", nil, nil)
		w.cache.Commit()
		for k, v := range w.ca {
			w.ov[k] = v
		}
		r.Count("op_cache_commit", 1)
		w.checkOverlayWriteSet("after CacheDB.Commit")
		if rng.Intn(2) == 0 {
			w.log("cache.Reset", nil, nil)
			w.cache.Reset()
			w.ca = layer{}
		}
	case c < 93:
		w.log("cache.Reset", nil, nil)
		w.cache.Reset()
		w.ca = layer{}
		r.Count("op_cache_reset", 1)
	case c < 97: // commit the block layer into the store
		w.log("overlay.CommitTo+BatchCommit", nil, nil)
		w.store.NewBatch()
		w.overlay.CommitTo()
		if err := w.store.BatchCommit(); err != nil {
			w.fail("batch-commit-error", err.Error())
			return
		}
		for k, v := range w.ov {
			if len(v) == 0 {
				delete(w.base, k)
			} else {
				w.base[k] = v
			}
		}
		r.Count("op_overlay_commit", 1)
		w.checkStore("after OverlayDB.CommitTo")
		if rng.Intn(3) != 0 {
			w.log("overlay.Reset", nil, nil)
			w.overlay.Reset()
			w.ov = layer{}
		}
	default:
		w.log("overlay.Reset", nil, nil)
		w.overlay.Reset()
		w.ov = layer{}
		r.Count("op_overlay_reset", 1)
		w.checkOverlayWriteSet("after OverlayDB.Reset")
	}
}

// liveIter = an open prefix iterator of one of the views with the list the model expects from it
type liveIter struct {
	it      scommon.StoreIterator
	want    []kv
	pos     int // number of entries consumed
	started bool
	done    bool
	desc    string
	failKey string
}

// interleavedScans opens 1..3 prefix iterators on the tx view / block view and consumes them in an
// interleaved order, with READS (CacheDB.Get / OverlayDB.Get, no layer is mutated) and further
// iterator creations placed between an iterator's creation, its First() and its Next() calls.
// Nothing here changes any layer, so every iterator must still yield exactly the model's list.
func (w *world) interleavedScans() {
	rng, r := w.rng, w.r
	var its []*liveIter
	open := func() {
		if rng.Intn(3) != 0 {
			p := w.scanPrefix()
			full := append([]byte{stStorage}, p...)
			want := w.liveUnder(full, w.visCache, w.ca, w.ov, w.base)
			for i := range want {
				want[i].k = want[i].k[1:]
			}
			w.log("cache.NewIterator(kept open)", p, nil)
			its = append(its, &liveIter{it: w.cache.NewIterator(append([]byte{}, p...)), want: want, desc: fmt.Sprintf("CacheDB.NewIterator(%x)", p), failKey: "cachedb-interleaved-scan-mismatch"})
			w.classify(full, w.ca, w.visOverlay, w.ov, w.base)
		} else {
			p := w.fullKey(false)
			p = p[:1+rng.Intn(len(p))]
			want := w.liveUnder(p, w.visOverlay, w.ov, w.base)
			w.log("overlay.NewIterator(kept open)", p, nil)
			its = append(its, &liveIter{it: w.overlay.NewIterator(append([]byte{}, p...)), want: want, desc: fmt.Sprintf("OverlayDB.NewIterator(%x)", p), failKey: "overlaydb-interleaved-scan-mismatch"})
		}
		r.Count("iterators_kept_open", 1)
	}
	defer func() {
		for _, li := range its {
			li.it.Release()
		}
	}()
	read := func() {
		if rng.Intn(3) != 0 {
			k := w.fullKey(true)
			if rng.Intn(3) == 0 {
				k = append([]byte{stStorage}, w.rest()...)
			}
			w.log("cache.Get", k[1:], nil)
			got, err := w.cache.Get(append([]byte{}, k[1:]...))
			want := w.visCache(string(k))
			if err != nil || !bytes.Equal(got, want) && !(len(got) == 0 && len(want) == 0) {
				w.fail("cachedb-get-mismatch", fmt.Sprintf("CacheDB.Get(%x) = (%x, %v), model says %x", k[1:], got, err, want))
			}
		} else {
			k := w.fullKey(false)
			w.log("overlay.Get", k, nil)
			got, err := w.overlay.Get(append([]byte{}, k...))
			want := w.visOverlay(string(k))
			if err != nil || !bytes.Equal(got, want) && !(len(got) == 0 && len(want) == 0) {
				w.fail("overlaydb-get-mismatch", fmt.Sprintf("OverlayDB.Get(%x) = (%x, %v), model says %x", k, got, err, want))
			}
		}
		for _, li := range its {
			if li.done {
				continue
			}
			if !li.started {
				r.Count("reads_between_iterator_creation_and_first", 1)
			} else {
				r.Count("reads_between_iterator_steps", 1)
			}
		}
	}
	n := 1 + rng.Intn(3)
	open()
	r.Count("op_interleaved_scans", 1)
	for guard := 0; guard < 400 && !w.bad; guard++ {
		var pending []*liveIter
		for _, li := range its {
			if !li.done {
				pending = append(pending, li)
			}
		}
		if len(pending) == 0 && len(its) >= n {
			break
		}
		c := rng.Intn(10)
		switch {
		case len(its) < n && (c < 2 || len(pending) == 0):
			for _, li := range pending {
				if !li.started {
					r.Count("iterator_created_before_another_was_started", 1)
				}
			}
			if len(pending) > 0 {
				r.Count("iterators_live_together", 1)
			}
			open()
		case c < 5:
			read()
		default:
			li := pending[rng.Intn(len(pending))]
			var ok bool
			if !li.started {
				w.log("First of "+li.desc, nil, nil)
				ok = li.it.First()
				li.started = true
			} else {
				w.log("Next of "+li.desc, nil, nil)
				ok = li.it.Next()
			}
			if len(pending) > 1 {
				r.Count("interleaved_iterator_steps", 1)
			}
			if li.pos >= len(li.want) {
				li.done = true
				if ok {
					w.fail(li.failKey, fmt.Sprintf("%s: extra entry #%d key %x value %x (model has %d entries)", li.desc, li.pos, li.it.Key(), li.it.Value(), len(li.want)))
				} else if err := li.it.Error(); err != nil {
					w.fail(li.failKey, fmt.Sprintf("%s: iterator error %v", li.desc, err))
				}
				continue
			}
			e := li.want[li.pos]
			if !ok {
				w.fail(li.failKey, fmt.Sprintf("%s: ended after %d entries, model expects #%d key %x (of %d)", li.desc, li.pos, li.pos, e.k, len(li.want)))
				continue
			}
			if string(li.it.Key()) != e.k || !bytes.Equal(li.it.Value(), e.v) {
				w.fail(li.failKey, fmt.Sprintf("%s: entry #%d is (%x,%x), model expects (%x,%x)", li.desc, li.pos, li.it.Key(), li.it.Value(), e.k, e.v))
				continue
			}
			li.pos++
			r.Count("scan_entries", 1)
		}
	}
}

// the block layer's recorded write set must be exactly the model's ov layer
func (w *world) checkOverlayWriteSet(when string) {
	var got []kv
	w.overlay.GetWriteSet().ForEach(func(k, v []byte) { got = append(got, kv{string(k), append([]byte{}, v...)}) })
	var want []kv
	for k, v := range w.ov {
		want = append(want, kv{k, v})
	}
	sort.Slice(want, func(i, j int) bool { return want[i].k < want[j].k })
	if d := diffKV(got, want); d != "" {
		w.fail("overlay-write-set-mismatch", fmt.Sprintf("%s the block layer does not hold exactly the committed changes: %s", when, d))
	}
}

func (w *world) checkStore(when string) {
	got, err := collect(w.store.NewIterator(nil), len(w.base)+5)
	var want []kv
	for k, v := range w.base {
		want = append(want, kv{k, v})
	}
	sort.Slice(want, func(i, j int) bool { return want[i].k < want[j].k })
	if err != nil {
		w.fail("store-iterator-error", err.Error())
	} else if d := diffKV(got, want); d != "" {
		w.fail("store-contents-mismatch", fmt.Sprintf("%s the backing store differs from the model: %s", when, d))
	}
}

// stack is reused by up to stackReuse consecutive scripts (allocating the 4 MiB buffers of a LevelDB
// memtable and of an OverlayDB for every script dominates the run time otherwise); between scripts
// the store is wiped through its own API and the overlay is Reset.
type stack struct {
	store   *leveldbstore.LevelDBStore
	overlay *overlaydb.OverlayDB
	used    int
}

const stackReuse = 100

func (st *stack) prepare(r *kit.Run) bool {
	if st.store != nil && st.used >= stackReuse {
		st.store.Close()
		st.store = nil
	}
	if st.store == nil {
		store, err := leveldbstore.NewMemLevelDBStore()
		if err != nil {
			r.Inconclusive("NewMemLevelDBStore: " + err.Error())
			return false
		}
		st.store, st.overlay, st.used = store, overlaydb.NewOverlayDB(store), 0
		r.Count("fresh_stacks", 1)
		return true
	}
	st.used++
	old, err := collect(st.store.NewIterator(nil), 1<<30)
	if err != nil {
		r.Inconclusive("wipe: " + err.Error())
		return false
	}
	for _, e := range old {
		if err := st.store.Delete([]byte(e.k)); err != nil {
			r.Inconclusive("wipe: " + err.Error())
			return false
		}
	}
	st.overlay.Reset()
	return true
}

func runScript(r *kit.Run, rng *rand.Rand, id int, st *stack) {
	if !st.prepare(r) {
		return
	}
	store := st.store
	w := &world{r: r, rng: rng, store: store, base: layer{}, ov: layer{}, ca: layer{}}
	// persisted contents
	nb := []int{0, 0, 1, 3, 8, 20}[rng.Intn(6)]
	for i := 0; i < nb; i++ {
		k := append([]byte{prefixes[[]int{1, 1, 1, 0, 2}[rng.Intn(5)]]}, w.rest()...)
		v := nonEmptyVal(rng)
		if err := store.Put(k, v); err != nil {
			r.Inconclusive("store.Put: " + err.Error())
			return
		}
		w.base[string(k)] = v
		w.log("store.Put", k, v)
	}
	w.overlay = st.overlay
	w.cache = storage.NewCacheDB(w.overlay)
	w.checkStore("before the script")
	nops := 25 + rng.Intn(50)
	if p := kit.Catch(func() {
		for i := 0; i < nops && !w.bad; i++ {
			w.step()
		}
	}); p != nil {
		w.fail("layer-panic", fmt.Sprintf("panic in the store layers: %v", p))
	}
	if !w.bad {
		// final full comparison of all three views
		want := w.liveUnder([]byte{stStorage}, w.visCache, w.ca, w.ov, w.base)
		for i := range want {
			want[i].k = want[i].k[1:]
		}
		got, err := collect(w.cache.NewIterator(nil), len(want)+5)
		if err != nil {
			w.fail("cachedb-iterator-error", err.Error())
		} else if d := diffKV(got, want); d != "" {
			w.fail("cachedb-scan-mismatch", "final CacheDB.NewIterator(nil): "+d)
		}
		wantO := w.liveUnder(nil, w.visOverlay, w.ov, w.base)
		gotO, err := collect(w.overlay.NewIterator(nil), len(wantO)+5)
		if err != nil {
			w.fail("overlaydb-iterator-error", err.Error())
		} else if d := diffKV(gotO, wantO); d != "" {
			w.fail("overlaydb-scan-mismatch", "final OverlayDB.NewIterator(nil): "+d)
		}
		w.checkStore("at the end")
		if w.overlay.Error() != nil {
			w.fail("overlay-error-set", w.overlay.Error().Error())
		}
	}
	r.Eval(1)
	r.Distinct(len(w.trace), len(w.base), len(w.ov), len(w.ca), nb)
	if id == 5 {
		tr := w.trace
		if len(tr) > 30 {
			tr = tr[:30]
		}
		r.Sample(map[string]interface{}{"script": id, "first_ops": tr})
	}
}

func TestC10(t *testing.T) {
	r := kit.Start(t, "C10", "exploration")
	defer r.Finish()
	if byte(scommon.ST_STORAGE) != stStorage {
		r.Inconclusive("ST_STORAGE changed")
		return
	}
	r.Rule("per script: an in-memory LevelDB (fresh every 100 scripts, wiped through its API in between) with 0..20 random persisted keys (prefixes 04/05/06, rest of length 0..3 over {00,'a','b',ff}), an OverlayDB and a CacheDB on top; 25..75 random operations: CacheDB Put/Delete/Get/NewIterator(prefix)/Commit/Reset, OverlayDB Put/Delete/Get/NewIterator(prefix)/CommitTo+BatchCommit/Reset, interleaved scans (1..3 iterators of either view kept open and stepped alternately, with Gets and further iterator creations between NewIterator, First and Next), keys biased towards keys already present in some layer; after every commit the layer below is dumped and compared with the model (block layer write set, store contents); every read and every scan is compared with the three-map model; distinct = (trace length, sizes of the three model layers, initial store size)")
	r.Assume("the backing store never holds empty values (OverlayDB.CommitTo turns empty values into deletions, so poly never persists one); an empty value written at a layer reads as absent")
	r.Assume("iterators are started with First() (as every caller in poly does) and the layers are not mutated while an iterator is open; reads (Get) and the creation / use of other iterators are not mutations and are interleaved freely between NewIterator, First and Next")
	r.Assume("goleveldb's in-memory storage behaves like the on-disk one for Get/Put/Delete/Write/iterators")
	rng := r.Rand("c10")
	n := r.N(2500, 100000)
	st := &stack{}
	defer func() {
		if st.store != nil {
			st.store.Close()
		}
	}()
	for i := 0; i < n; i++ {
		runScript(r, rng, i, st)
		if r.Violations() > 10 {
			break
		}
	}
	if r.Violations() > 0 {
		return // the run was cut short; the vacuity guards below would only add noise
	}
	for _, c := range []string{"op_cache_put", "op_cache_delete", "op_cache_get", "op_overlay_put", "op_overlay_delete", "op_overlay_get", "op_cache_scan", "op_overlay_scan",
		"op_cache_commit", "op_cache_reset", "op_overlay_commit", "op_overlay_reset", "read_absent", "read_present",
		"join_deleted_in_mem_live_in_backend", "join_deleted_in_mem_absent_in_backend", "join_overwritten_in_mem", "join_mem_only", "join_backend_only",
		"join_empty_mem_side", "join_empty_backend_side", "join_both_sides_empty",
		"op_interleaved_scans", "reads_between_iterator_creation_and_first", "reads_between_iterator_steps", "iterators_live_together", "iterator_created_before_another_was_started", "interleaved_iterator_steps"} {
		r.Require(c, n/4)
	}
	r.Require("scan_entries", n)
}
