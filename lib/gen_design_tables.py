#!/usr/bin/env python3
"""Regenerates the machine-derived tables of DESIGN.md (between the BEGIN/END markers):
per-check actuals from checks.d + evidence, seeded changes from seeded/*/meta.json."""
import json, os, re
V = os.path.dirname(os.path.dirname(os.path.abspath(__file__)))
def checks_table():
    rows = ["| id | level | deciding technique | last run in evidence/: tier, evaluations / distinct, wall | last thorough run (evidence-thorough/): evaluations / distinct, wall | extra phases |", "|---|---|---|---|---|---|"]
    for f in sorted(os.listdir(os.path.join(V, "checks.d"))):
        pid = f[:-5]; spec = json.load(open(os.path.join(V, "checks.d", f)))
        try: ev = json.load(open(os.path.join(V, "evidence", pid + ".json")))
        except Exception: ev = {}
        c = ev.get("coverage", {})
        try: evt = json.load(open(os.path.join(V, "evidence-thorough", pid + ".json")))
        except Exception: evt = {}
        ct = evt.get("coverage", {})
        extra = []
        for p in spec.get("phases") or []:
            if p.get("race"): extra.append("-race (%s)" % p.get("name", "race"))
            if p.get("overlay"): extra.append("std-lib overlay")
        kf = len(c.get("known_findings_matched") or {})
        rows.append("| %s | %s | %s | %s: %s / %s, %.0f s | %s / %s, %.0f s | %s%s |" % (pid, spec["level"], spec["technique"], ev.get("tier", "-"), c.get("evaluations", "-"), c.get("distinct_nontrivial", "-"), ev.get("wall_s", 0), ct.get("evaluations", "-"), ct.get("distinct_nontrivial", "-"), evt.get("wall_s", 0), ", ".join(extra), (" known findings matched: %d" % kf) if kf else ""))
    return "\n".join(rows)
def seeds_table():
    rows = ["| seeded change | property | what it does / needs | caught by |", "|---|---|---|---|"]
    d = os.path.join(V, "seeded")
    for name in sorted(os.listdir(d)) if os.path.isdir(d) else []:
        try: m = json.load(open(os.path.join(d, name, "meta.json")))
        except Exception: continue
        what = m.get("summary") or (", ".join(m.get("files_touched", []))[:80] + ": " + re.sub(r"\s+", " ", m.get("needs_to_manifest", ""))[:260])
        caught = m["checks_run"]["caught"]
        rows.append("| %s | %s | %s | %s: %s |" % (name, m["property"], what.replace("|", "/"), " ".join(m["checks_run"]["checks"]), caught.replace("|", "/")))
    return "\n".join(rows)
p = os.path.join(V, "DESIGN.md")
s = open(p).read()
for tag, gen in (("CHECKS-TABLE", checks_table), ("SEEDS-TABLE", seeds_table)):
    b, e = "<!-- BEGIN %s -->" % tag, "<!-- END %s -->" % tag
    if b in s:
        s = s[:s.index(b) + len(b)] + "\n" + gen() + "\n" + s[s.index(e):]
open(p, "w").write(s)
print("tables regenerated")
