package ethsynth

import (
	"bytes"
	"encoding/json"
	"fmt"
	"math/big"
	"math/rand"
	"sort"

	ecommon "github.com/ethereum/go-ethereum/common"
	"github.com/ethereum/go-ethereum/ethdb/memorydb"
	"github.com/ethereum/go-ethereum/trie"
)

// Account is one account of a synthetic world state.
type Account struct {
	Nonce    uint64
	Balance  *big.Int
	CodeHash Hash
	Storage  map[Hash][]byte // slot -> value (at most 32 bytes, stored with leading zeros trimmed)
}

// State is a synthetic Ethereum world state (accounts with storage).
type State struct {
	Accounts map[Addr]*Account
	// Aliens are state-trie leaves stored under keccak256 of a byte string that is NOT a 20-byte
	// address (the trie itself does not care what was hashed); key = the raw bytes.
	Aliens map[string]*Account
}

// NewState creates a state with the given contract account plus n random other accounts, each
// with a few random storage slots.
func NewState(rng *rand.Rand, contract Addr, n int) *State {
	s := &State{Accounts: map[Addr]*Account{}}
	mk := func() *Account {
		a := &Account{Nonce: uint64(rng.Intn(1000)), Balance: new(big.Int).Rand(rng, new(big.Int).Lsh(big.NewInt(1), uint(1+rng.Intn(90)))), CodeHash: RandHash(rng), Storage: map[Hash][]byte{}}
		for i := rng.Intn(6); i > 0; i-- {
			v := RandHash(rng)
			a.Storage[RandHash(rng)] = v[:]
		}
		return a
	}
	s.Accounts[contract] = mk()
	for i := 0; i < n; i++ {
		var a Addr
		rng.Read(a[:])
		s.Accounts[a] = mk()
	}
	return s
}

// Clone deep-copies the state.
func (s *State) Clone() *State {
	c := &State{Accounts: map[Addr]*Account{}}
	for a, acc := range s.Accounts {
		n := &Account{Nonce: acc.Nonce, Balance: new(big.Int).Set(acc.Balance), CodeHash: acc.CodeHash, Storage: map[Hash][]byte{}}
		for k, v := range acc.Storage {
			n.Storage[k] = append([]byte{}, v...)
		}
		c.Accounts[a] = n
	}
	for raw, acc := range s.Aliens {
		n := &Account{Nonce: acc.Nonce, Balance: new(big.Int).Set(acc.Balance), CodeHash: acc.CodeHash, Storage: map[Hash][]byte{}}
		for k, v := range acc.Storage {
			n.Storage[k] = append([]byte{}, v...)
		}
		if c.Aliens == nil {
			c.Aliens = map[string]*Account{}
		}
		c.Aliens[raw] = n
	}
	return c
}

// AddAlien creates a leaf under keccak256(raw) with an empty storage and returns its account.
func (s *State) AddAlien(rng *rand.Rand, raw []byte) *Account {
	if s.Aliens == nil {
		s.Aliens = map[string]*Account{}
	}
	a := &Account{Nonce: uint64(rng.Intn(1000)), Balance: big.NewInt(int64(rng.Intn(1000000))), CodeHash: RandHash(rng), Storage: map[Hash][]byte{}}
	s.Aliens[string(raw)] = a
	return a
}

func newTrie() *trie.Trie {
	t, err := trie.New(ecommon.Hash{}, trie.NewDatabase(memorydb.New()))
	if err != nil {
		panic(err)
	}
	return t
}

func (a *Account) storageTrie() *trie.Trie {
	t := newTrie()
	slots := make([]Hash, 0, len(a.Storage))
	for k := range a.Storage {
		slots = append(slots, k)
	}
	sort.Slice(slots, func(i, j int) bool { return bytes.Compare(slots[i][:], slots[j][:]) < 0 })
	for _, k := range slots {
		v := bytes.TrimLeft(a.Storage[k], "\x00")
		if len(v) == 0 {
			continue // zero values are not stored
		}
		key := Keccak(k[:])
		t.Update(key[:], RlpBytes(v))
	}
	return t
}

// AccountRLP is the state-trie leaf value: rlp([nonce, balance, storageRoot, codeHash]).
func AccountRLP(nonce uint64, balance *big.Int, storageRoot, codeHash Hash) []byte {
	return RlpList(RlpUint(nonce), RlpBig(balance), RlpBytes(storageRoot[:]), RlpBytes(codeHash[:]))
}

func (s *State) accountTrie() *trie.Trie {
	t := newTrie()
	addrs := make([]Addr, 0, len(s.Accounts))
	for a := range s.Accounts {
		addrs = append(addrs, a)
	}
	sort.Slice(addrs, func(i, j int) bool { return bytes.Compare(addrs[i][:], addrs[j][:]) < 0 })
	for _, a := range addrs {
		acc := s.Accounts[a]
		key := Keccak(a[:])
		t.Update(key[:], AccountRLP(acc.Nonce, acc.Balance, Hash(acc.storageTrie().Hash()), acc.CodeHash))
	}
	raws := make([]string, 0, len(s.Aliens))
	for raw := range s.Aliens {
		raws = append(raws, raw)
	}
	sort.Strings(raws)
	for _, raw := range raws {
		acc := s.Aliens[raw]
		key := Keccak([]byte(raw))
		t.Update(key[:], AccountRLP(acc.Nonce, acc.Balance, Hash(acc.storageTrie().Hash()), acc.CodeHash))
	}
	return t
}

// Root is the state root.
func (s *State) Root() Hash { return Hash(s.accountTrie().Hash()) }

// StorageProof / Proof mirror the JSON of eth_getProof, which poly's ETHProof (and the bsc, heco,
// ... copies) unmarshal.
type StorageProof struct {
	Key   string   `json:"key"`
	Value string   `json:"value"`
	Proof []string `json:"proof"`
}

type Proof struct {
	Address       string         `json:"address"`
	Balance       string         `json:"balance"`
	CodeHash      string         `json:"codeHash"`
	Nonce         string         `json:"nonce"`
	StorageHash   string         `json:"storageHash"`
	AccountProof  []string       `json:"accountProof"`
	StorageProofs []StorageProof `json:"storageProof"`
}

// JSON serializes the proof.
func (p *Proof) JSON() []byte {
	b, err := json.Marshal(p)
	if err != nil {
		panic(err)
	}
	return b
}

// Clone deep-copies the proof.
func (p *Proof) Clone() *Proof {
	c := *p
	c.AccountProof = append([]string{}, p.AccountProof...)
	c.StorageProofs = nil
	for _, sp := range p.StorageProofs {
		sp.Proof = append([]string{}, sp.Proof...)
		c.StorageProofs = append(c.StorageProofs, sp)
	}
	return &c
}

type proofList [][]byte

func (n *proofList) Put(key []byte, value []byte) error {
	*n = append(*n, append([]byte{}, value...))
	return nil
}
func (n *proofList) Delete(key []byte) error { panic("not supported") }

func hexList(l proofList) []string {
	out := []string{}
	for _, b := range l {
		out = append(out, fmt.Sprintf("0x%x", b))
	}
	return out
}

// Prove builds the eth_getProof answer for (addr, slot): Merkle-Patricia nodes root-to-leaf for
// the account in the state trie and for the slot in that account's storage trie. For an absent
// account or slot the node lists are the proofs of absence (longest existing prefix) and the
// account fields are those of the empty account.
func (s *State) Prove(addr Addr, slot Hash) *Proof {
	at := s.accountTrie()
	var apl proofList
	ak := Keccak(addr[:])
	if err := at.Prove(ak[:], 0, &apl); err != nil {
		panic(err)
	}
	p := &Proof{Address: fmt.Sprintf("0x%x", addr[:]), AccountProof: hexList(apl)}
	acc := s.Accounts[addr]
	if acc == nil {
		empty := Hash(newTrie().Hash())
		p.Balance, p.Nonce, p.CodeHash, p.StorageHash = "0x0", "0x0", "0x"+Keccak().Hex(), "0x"+empty.Hex()
		p.StorageProofs = []StorageProof{{Key: "0x" + slot.Hex(), Value: "0x0", Proof: []string{}}}
		return p
	}
	st := acc.storageTrie()
	p.Balance = "0x" + acc.Balance.Text(16)
	p.Nonce = fmt.Sprintf("0x%x", acc.Nonce)
	p.CodeHash = "0x" + acc.CodeHash.Hex()
	p.StorageHash = "0x" + Hash(st.Hash()).Hex()
	var spl proofList
	sk := Keccak(slot[:])
	if err := st.Prove(sk[:], 0, &spl); err != nil {
		panic(err)
	}
	val := "0x0"
	if v := bytes.TrimLeft(acc.Storage[slot], "\x00"); len(v) > 0 {
		val = fmt.Sprintf("0x%x", v)
	}
	p.StorageProofs = []StorageProof{{Key: "0x" + slot.Hex(), Value: val, Proof: hexList(spl)}}
	return p
}

// ProveRaw is Prove for an alien leaf: the account proof is for the state-trie key keccak256(raw),
// the "address" field of the answer is the raw byte string in hex.
func (s *State) ProveRaw(raw []byte, slot Hash) *Proof {
	acc := s.Aliens[string(raw)]
	if acc == nil {
		panic("no such alien leaf")
	}
	at := s.accountTrie()
	var apl proofList
	ak := Keccak(raw)
	if err := at.Prove(ak[:], 0, &apl); err != nil {
		panic(err)
	}
	st := acc.storageTrie()
	p := &Proof{Address: fmt.Sprintf("0x%x", raw), AccountProof: hexList(apl), Balance: "0x" + acc.Balance.Text(16), Nonce: fmt.Sprintf("0x%x", acc.Nonce),
		CodeHash: "0x" + acc.CodeHash.Hex(), StorageHash: "0x" + Hash(st.Hash()).Hex()}
	var spl proofList
	sk := Keccak(slot[:])
	if err := st.Prove(sk[:], 0, &spl); err != nil {
		panic(err)
	}
	val := "0x0"
	if v := bytes.TrimLeft(acc.Storage[slot], "\x00"); len(v) > 0 {
		val = fmt.Sprintf("0x%x", v)
	}
	p.StorageProofs = []StorageProof{{Key: "0x" + slot.Hex(), Value: val, Proof: hexList(spl)}}
	return p
}

// ---- deposit messages ----

// TxParam mirrors the fields of poly's MakeTxParam (the cross-chain message a source-chain
// contract commits to by storing keccak256 of its serialization).
type TxParam struct {
	TxHash              []byte
	CrossChainID        []byte
	FromContractAddress []byte
	ToChainID           uint64
	ToContractAddress   []byte
	Method              string
	Args                []byte
}

func varUint(x uint64) []byte {
	switch {
	case x < 0xfd:
		return []byte{byte(x)}
	case x <= 0xffff:
		return []byte{0xfd, byte(x), byte(x >> 8)}
	case x <= 0xffffffff:
		return []byte{0xfe, byte(x), byte(x >> 8), byte(x >> 16), byte(x >> 24)}
	default:
		b := []byte{0xff}
		for i := uint(0); i < 8; i++ {
			b = append(b, byte(x>>(8*i)))
		}
		return b
	}
}

func varBytes(b []byte) []byte { return append(varUint(uint64(len(b))), b...) }

// Serialize encodes the message in poly's wire format (var-bytes fields, little-endian uint64).
func (t *TxParam) Serialize() []byte {
	var out []byte
	out = append(out, varBytes(t.TxHash)...)
	out = append(out, varBytes(t.CrossChainID)...)
	out = append(out, varBytes(t.FromContractAddress)...)
	for i := uint(0); i < 8; i++ {
		out = append(out, byte(t.ToChainID>>(8*i)))
	}
	out = append(out, varBytes(t.ToContractAddress)...)
	out = append(out, varBytes([]byte(t.Method))...)
	out = append(out, varBytes(t.Args)...)
	return out
}

// RandTxParam draws a message for the given target chain with a fresh cross-chain id.
func RandTxParam(rng *rand.Rand, toChain uint64) *TxParam {
	rb := func(n int) []byte { b := make([]byte, n); rng.Read(b); return b }
	return &TxParam{TxHash: rb(32), CrossChainID: rb(32), FromContractAddress: rb(20), ToChainID: toChain, ToContractAddress: rb(20),
		Method: []string{"unlock", "transfer", "x"}[rng.Intn(3)], Args: rb(rng.Intn(300))}
}

// CommitRaw stores an arbitrary 32-byte value at slot of the contract account.
func (s *State) CommitRaw(contract Addr, slot Hash, value Hash) {
	s.Accounts[contract].Storage[slot] = append([]byte{}, value[:]...)
}

// Commit stores keccak256(message) at slot of the contract account, as the source chain's
// cross-chain manager contract does.
func (s *State) Commit(contract Addr, slot Hash, message []byte) {
	h := Keccak(message)
	s.Accounts[contract].Storage[slot] = h[:]
}
