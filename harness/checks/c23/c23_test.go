// C23: EVM-family deposit proofs are sound and complete.
//
// Synthetic source chains (eth PoW with the seal bypassed; bsc, heco, hsc, pixie, bytom, msc with real
// validator seals) are synced through the REAL header_sync contract; world states with the
// cross-chain manager contract's storage are built with go-ethereum's trie; every proof case goes
// through the REAL cross_chain_manager.ImportOuterTransfer entry (entrance.go). The expected
// verdict of every case is known from its construction, independently of poly's code.
package c23

import (
	"bytes"
	"encoding/binary"
	"fmt"
	"math/big"
	"math/rand"
	"strings"
	"testing"

	"verifharness/kit"
	es "verifharness/synth/ethsynth"

	cstates "github.com/polynetwork/poly/core/states"
	polyeth "github.com/polynetwork/poly/native/service/header_sync/eth"
	"github.com/polynetwork/poly/native/service/utils"
)

const (
	targetChain = 900 // registered destination chain of every deposit
	sealChainID = 97
)

type expect int

const (
	accept expect = iota
	reject
	soundOnly // the claim is true but the proof is not in canonical form: either verdict is fine, acceptance must deliver the message
	recordOnly
)

type kase struct {
	name   string
	height uint64
	proof  []byte
	extra  []byte
	exp    expect
}

func TestC23(t *testing.T) {
	r := kit.Start(t, "C23", "exploration")
	defer r.Finish()
	polyeth.VerifSealBypass = true
	defer func() { polyeth.VerifSealBypass = false }()
	r.Rule("per router: a synced synthetic chain (trust root, 2 blocks without the deposits, then blocks whose state holds ~45 committed deposits, one non-canonical fork block holding an extra deposit) with BlocksToWait in {1,2,6}; ~45 proof cases per chain, each with its own deposit: valid at depth / exactly at the confirmation boundary / one short of it / above head / below the trust root / at a block before the deposit; truncated, reordered, padded proofs; node from another trie; other account; CCMC mismatch; proof addresses of 19/21/32 bytes that crop or pad to the registered contract address, backed by really existing state-trie leaves under keccak256(raw bytes) (contract addresses with leading zero bytes included); altered account fields; wrong slot; message altered / truncated; slots holding short words (1, 2, 3, 16, 31 bytes) equal to the tail / head of the message hash; commitments off by one byte; hash with a leading zero byte (must be accepted); absence proofs; fork-block deposit; malformed JSON; plus per trial two reorganisation scenarios (long light chain A, then a SHORTER but heavier fork B becomes the head: eth slow vs fast blocks, PoSA out-of-turn vs in-turn seals) with deposits proven against orphaned A blocks at every height relative to the new head (at/below it, above it up to A's old tip, beyond) and against canonical B blocks; distinct = (router, BlocksToWait, case)")
	r.Assume("confirmations are counted as the handlers define them: a block at the head has 1 confirmation, so a deposit at height h is confirmed when head - h + 1 >= BlocksToWait (BlocksToWait >= 1 is enforced at registration)")
	r.Assume("cases whose claim is true but whose proof is not in canonical eth_getProof form (nodes reordered, junk nodes added, two storage proofs, odd hex casing) are checked for soundness only: if accepted, the delivered message must be the submitted one")
	r.Assume("driven through cross_chain_manager.ImportOuterTransfer (entrance.go), destination chain registered, fresh cross-chain id per case; replay protection belongs to C20 and is only recorded here")
	r.Assume("go-ethereum v1.9.15 trie/rlp/crypto are trusted as the producer of honest Merkle-Patricia data")

	trials := r.N(3, 80)
	covered := []string{}
	for _, name := range []string{"eth", "bsc", "heco", "hsc", "pixie", "bytom", "msc"} {
		var e *es.Env
		for tr := 0; tr < trials; tr++ {
			if tr%20 == 0 { // fresh universe every 20 trials keeps the per-case storage dumps small
				e = es.NewEnv(r.Rand(fmt.Sprintf("env/%s/%d", name, tr)), 3)
				if err := e.RegisterSideChain(targetChain, utils.ETH_ROUTER, "target", 1, make([]byte, 20), nil); err != nil {
					r.Inconclusive("register target: " + err.Error())
					return
				}
			}
			for wi, w := range []uint64{1, 2, 6} {
				rng := r.Rand(fmt.Sprintf("%s/%d/%d", name, tr, w))
				runChain(r, rng, e, name, uint64(1000+tr*3+wi), w)
				if r.Violations() > 10 {
					return
				}
			}
			// two reorganisation scenarios per trial (long light chain A -> shorter heavier fork B)
			for k := 0; k < 2; k++ {
				rng := r.Rand(fmt.Sprintf("%s/reorg/%d/%d", name, tr, k))
				runReorg(r, rng, e, name, uint64(5000+tr*2+k), uint64(1+(tr+k)%3))
				if r.Violations() > 10 {
					return
				}
			}
		}
		covered = append(covered, name)
		r.Require(name+":reorg_to_lower_head_setups", trials)
		r.Require(name+":rejected_orphan_above_head_after_reorg", trials*2)
		r.Require(name+":rejected_orphan_at_or_below_head_after_reorg", trials*2)
		r.Require(name+":accepted_in_heavier_shorter_fork", trials)
		r.Require(name+":accepted", trials*3*4)
		r.Require(name+":rejected", trials*3*35)
		r.Require(name+":rejected_short_word", trials*3*10)
		r.Require(name+":rejected_alien_address", trials*3*4)
		r.Require(name+":rejected_alien_address_trimmed_ccmc", 1)
		r.Require(name+":accepted_at_confirmation_boundary", trials*3)
		r.Require(name+":rejected_one_short_of_confirmations", trials*2)
		r.Require(name+":rejected_fork_block_deposit", trials*3)
	}
	r.Set("routers_covered", covered)
	r.Set("routers_uncovered", []string{"polygon bor (header sync not synthesized)", "quorum (header travels with the proof; not synthesized)"})
	r.Set("entry", "cross_chain_manager.ImportOuterTransfer (entrance.go)")
}

func flavorOf(name string) *es.Flavor {
	for _, f := range append(append([]*es.Flavor{}, es.PoSAFlavors...), es.PoSAFlavorsB...) {
		if f.Name == name {
			return f
		}
	}
	return nil
}

func runChain(r *kit.Run, rng *rand.Rand, e *es.Env, name string, chainID, w uint64) {
	var ccmc es.Addr
	rng.Read(ccmc[:])
	if w == 2 || rng.Intn(3) == 0 {
		ccmc[0] = 0 // a contract address with a leading zero byte (vanity addresses are common)
		if rng.Intn(2) == 0 {
			ccmc[1] = 0
		}
	}
	// ---- world states
	stA := es.NewState(rng, ccmc, 6+rng.Intn(20))
	var other es.Addr // another contract account that will hold the same commitments
	for a := range stA.Accounts {
		if a != ccmc {
			other = a
		}
	}
	// deterministic choice of "other": smallest address != ccmc
	for a := range stA.Accounts {
		if a != ccmc && bytes.Compare(a[:], other[:]) < 0 {
			other = a
		}
	}
	stB := stA.Clone()
	type dep struct {
		slot  es.Hash
		msg   []byte
		param *es.TxParam
	}
	var deps []dep
	for i := 0; i < 60; i++ {
		p := es.RandTxParam(rng, targetChain)
		d := dep{slot: es.RandHash(rng), msg: p.Serialize(), param: p}
		if i%7 == 0 { // realistic mapping-slot shape with leading zero bytes in the hash are covered by chance; force one
			d.slot[0] = 0
		}
		deps = append(deps, d)
		stB.Commit(ccmc, d.slot, d.msg)
		stB.Commit(other, d.slot, d.msg)
	}
	// commitments that differ from keccak256(message) in a single byte (first / last), and a
	// message whose hash has a leading zero byte (stored trimmed, as the EVM does)
	nearFirst, nearLast := es.RandTxParam(rng, targetChain), es.RandTxParam(rng, targetChain)
	slotNF, slotNL, slotLZ := es.RandHash(rng), es.RandHash(rng), es.RandHash(rng)
	hf1 := es.Keccak(nearFirst.Serialize())
	hf1[0] ^= 0x80
	stB.CommitRaw(ccmc, slotNF, hf1)
	hl1 := es.Keccak(nearLast.Serialize())
	hl1[31] ^= 0x01
	stB.CommitRaw(ccmc, slotNL, hl1)
	lz := es.RandTxParam(rng, targetChain)
	for es.Keccak(lz.Serialize())[0] != 0 {
		lz.Args = append(lz.Args[:0], byte(rng.Intn(256)), byte(rng.Intn(256)), byte(rng.Intn(256)))
	}
	stB.Commit(ccmc, slotLZ, lz.Serialize())
	// short words: a slot of the contract holds only k < 32 significant bytes that equal the LAST k
	// (or the FIRST k) bytes of keccak256(message); as a 32-byte word this is 0..0|bytes, which is
	// not the commitment of the message (equivalent to grinding a message against a counter/flag slot)
	type shortCase struct {
		name string
		slot es.Hash
		msg  []byte
	}
	var shorts []shortCase
	for _, k := range []int{1, 2, 3, 16, 31} {
		for _, tail := range []bool{true, false} {
			var p *es.TxParam
			var hsh es.Hash
			for { // the dropped part must be non-zero and the kept part must start with a non-zero byte
				p = es.RandTxParam(rng, targetChain)
				hsh = es.Keccak(p.Serialize())
				if tail && hsh[32-k] != 0 && hsh[0] != 0 || !tail && hsh[0] != 0 && hsh[31] != 0 {
					break
				}
			}
			var word es.Hash
			nm := fmt.Sprintf("short-word-%d-bytes-equal-hash-", k)
			if tail {
				copy(word[32-k:], hsh[32-k:])
				nm += "tail"
			} else {
				copy(word[32-k:], hsh[:k])
				nm += "head"
			}
			sc := shortCase{nm, es.RandHash(rng), p.Serialize()}
			stB.CommitRaw(ccmc, sc.slot, word)
			shorts = append(shorts, sc)
		}
	}
	// alien leaves: really existing state-trie leaves under keccak256(byte string that is not the
	// 20-byte contract address but looks like it after cropping / padding to 20 bytes), whose
	// storage commits to messages the registered contract never committed
	type alienCase struct {
		name string
		raw  []byte
		slot es.Hash
		msg  []byte
	}
	var aliens []alienCase
	addAlien := func(name string, raw []byte) {
		ac := alienCase{name, raw, es.RandHash(rng), es.RandTxParam(rng, targetChain).Serialize()}
		acc := stB.AddAlien(rng, raw)
		h := es.Keccak(ac.msg)
		acc.Storage[ac.slot] = h[:]
		aliens = append(aliens, ac)
	}
	addAlien("alien-address-21-bytes-ff-then-ccmc", append([]byte{0xff}, ccmc[:]...))
	addAlien("alien-address-21-bytes-00-then-ccmc", append([]byte{0x00}, ccmc[:]...))
	pad := make([]byte, 12)
	rng.Read(pad)
	addAlien("alien-address-32-bytes-ending-in-ccmc", append(pad, ccmc[:]...))
	addAlien("alien-address-ccmc-then-extra-byte", append(append([]byte{}, ccmc[:]...), 0x00))
	if ccmc[0] == 0 {
		trimmed := ccmc[1:]
		if ccmc[1] == 0 {
			trimmed = ccmc[2:]
		}
		addAlien("alien-address-ccmc-without-leading-zero-bytes", append([]byte{}, trimmed...))
	}
	stF := stB.Clone() // the fork block's state: one more deposit
	fp := es.RandTxParam(rng, targetChain)
	fdep := dep{slot: es.RandHash(rng), msg: fp.Serialize(), param: fp}
	stF.Commit(ccmc, fdep.slot, fdep.msg)
	rootA, rootB, rootF := stA.Root(), stB.Root(), stF.Root()

	// ---- the chain
	var g uint64
	type nd struct {
		eth  *es.Hdr
		posa *es.PNode
	}
	var nodes []nd
	var submit func(parent int, root es.Hash) (int, bool)
	if name == "eth" {
		if err := e.RegisterSideChain(chainID, utils.ETH_ROUTER, name, w, ccmc[:], nil); err != nil {
			r.Inconclusive("register: " + err.Error())
			return
		}
		forks := es.ForksFor(e.NetID)
		g = []uint64{12000000, 10499395, 10600000}[rng.Intn(3)]
		root := es.NewRoot(rng, forks, g, big.NewInt(1000000000000+rng.Int63n(1000000000000)), 12000000)
		if rec := e.SyncGenesis(chainID, root.JSON()); !rec.Ok {
			r.Inconclusive("genesis: " + rec.Err)
			return
		}
		nodes = append(nodes, nd{eth: root})
		submit = func(parent int, sr es.Hash) (int, bool) {
			h := es.Child(rng, forks, nodes[parent].eth, es.ChildOpt{Root: &sr, Dt: uint64(10 + rng.Intn(5))})
			if rec := e.SyncHeaders(chainID, h.JSON()); !rec.Ok {
				r.Inconclusive("sync header: " + rec.Err)
				return 0, false
			}
			nodes = append(nodes, nd{eth: h})
			return len(nodes) - 1, true
		}
	} else {
		f := flavorOf(name)
		v := 1 + rng.Intn(5)
		c, gen := es.NewPoSAChain(rng, f, sealChainID, 1+rng.Intn(v), v, v, 6000000)
		if err := e.RegisterSideChain(chainID, f.Router, name, w, ccmc[:], f.ExtraInfoJSONEpoch(sealChainID, c.Epoch)); err != nil {
			r.Inconclusive("register: " + err.Error())
			return
		}
		if rec := e.SyncGenesis(chainID, gen); !rec.Ok {
			r.Inconclusive("genesis: " + rec.Err)
			return
		}
		g = c.M.Root.H.Number
		nodes = append(nodes, nd{posa: c.M.Root})
		submit = func(parent int, sr es.Hash) (int, bool) {
			h := c.Next(rng, nodes[parent].posa, es.HonestOpt{Root: &sr})
			if h == nil {
				r.Inconclusive("no eligible sealer")
				return 0, false
			}
			if rec := e.SyncHeaders(chainID, h.JSON()); !rec.Ok {
				r.Inconclusive("sync header: " + rec.Err)
				return 0, false
			}
			nodes = append(nodes, nd{posa: c.M.Add(nodes[parent].posa, h)})
			return len(nodes) - 1, true
		}
	}
	// canonical: g+1, g+2 carry state A; from h0 = g+3 on state B; head = h0 + w + 2
	h0 := g + 3
	head := h0 + w + 2
	cur := 0
	idxAt := map[uint64]int{g: 0}
	for n := g + 1; n <= head; n++ {
		sr := rootB
		if n < h0 {
			sr = rootA
		}
		var ok bool
		if cur, ok = submit(cur, sr); !ok {
			return
		}
		idxAt[n] = cur
	}
	// the fork block at h0+1 (child of canonical h0), submitted last: lighter than the canonical chain
	hf := h0 + 1
	if _, ok := submit(idxAt[h0], rootF); !ok {
		return
	}
	if hd, _, ok := e.Canon(chainID); !ok || hd != head {
		r.Inconclusive(fmt.Sprintf("chain setup: head %d expected %d", hd, head))
		return
	}

	// ---- cases
	next := 0
	take := func() dep { d := deps[next]; next++; return d }
	boundary := head - w + 1
	var cases []kase
	add := func(name string, height uint64, p *es.Proof, extra []byte, exp expect) {
		cases = append(cases, kase{name, height, p.JSON(), extra, exp})
	}
	hon := func(d dep) *es.Proof { return stB.Prove(ccmc, d.slot) }
	d := take()
	add("valid-deep", h0, hon(d), d.msg, accept)
	d = take()
	add("valid-at-confirmation-boundary", boundary, hon(d), d.msg, accept)
	d = take()
	add("one-short-of-confirmations", boundary+1, hon(d), d.msg, reject)
	if w > 1 {
		d = take()
		add("at-head", head, hon(d), d.msg, reject)
	}
	d = take()
	add("above-head", head+1, hon(d), d.msg, reject)
	d = take()
	add("far-above-head", head+1000000, hon(d), d.msg, reject)
	d = take()
	add("below-trust-root", g-1, hon(d), d.msg, reject)
	d = take()
	add("far-below-trust-root", g-1000, hon(d), d.msg, reject)
	d = take()
	add("at-trust-root", g, hon(d), d.msg, reject)
	d = take()
	add("block-before-deposit/proof-from-later-state", g+1, hon(d), d.msg, reject)
	d = take()
	add("block-before-deposit/honest-absence-proof", g+1, stA.Prove(ccmc, d.slot), d.msg, reject)
	// proof shape
	cut := func(name string, f func(p *es.Proof)) {
		d := take()
		p := hon(d)
		f(p)
		add(name, h0, p, d.msg, reject)
	}
	cut("account-proof-last-node-dropped", func(p *es.Proof) { p.AccountProof = p.AccountProof[:len(p.AccountProof)-1] })
	cut("account-proof-first-node-dropped", func(p *es.Proof) { p.AccountProof = p.AccountProof[1:] })
	cut("account-proof-empty", func(p *es.Proof) { p.AccountProof = []string{} })
	cut("storage-proof-last-node-dropped", func(p *es.Proof) {
		sp := &p.StorageProofs[0]
		sp.Proof = sp.Proof[:len(sp.Proof)-1]
	})
	cut("storage-proof-first-node-dropped", func(p *es.Proof) { p.StorageProofs[0].Proof = p.StorageProofs[0].Proof[1:] })
	cut("storage-proof-missing", func(p *es.Proof) { p.StorageProofs = nil })
	cut("account-leaf-from-fork-state", func(p *es.Proof) {
		q := stF.Prove(ccmc, fdep.slot)
		p.AccountProof[len(p.AccountProof)-1] = q.AccountProof[len(q.AccountProof)-1]
	})
	cut("storage-leaf-from-other-slot", func(p *es.Proof) {
		q := stB.Prove(ccmc, deps[59].slot)
		sp := &p.StorageProofs[0]
		sp.Proof[len(sp.Proof)-1] = q.StorageProofs[0].Proof[len(q.StorageProofs[0].Proof)-1]
	})
	cut("account-nonce-altered", func(p *es.Proof) { p.Nonce = fmt.Sprintf("0x%x", stB.Accounts[ccmc].Nonce+1) })
	cut("account-balance-altered", func(p *es.Proof) {
		p.Balance = "0x" + new(big.Int).Add(stB.Accounts[ccmc].Balance, big.NewInt(1)).Text(16)
	})
	cut("account-codehash-altered", func(p *es.Proof) { p.CodeHash = "0x" + es.RandHash(rng).Hex() })
	{
		// storage hash swapped for another account's storage root together with that account's storage proof
		d := take()
		p := hon(d)
		st2 := stB.Clone()
		m2 := append([]byte{}, d.msg...)
		m2[len(m2)-1] ^= 1
		st2.Commit(other, d.slot, m2) // "other" commits to an ALTERED message at the same slot
		q := st2.Prove(other, d.slot)
		p.StorageHash, p.StorageProofs = q.StorageHash, q.StorageProofs
		add("storage-root-of-another-account", h0, p, m2, reject)
	}
	{
		d := take()
		add("another-account-same-commitment", h0, stB.Prove(other, d.slot), d.msg, reject) // consistent proof, but not the registered contract
		d = take()
		p := stB.Prove(other, d.slot)
		p.Address = fmt.Sprintf("0x%x", ccmc[:])
		add("address-says-ccmc-nodes-of-another-account", h0, p, d.msg, reject)
		d = take()
		var nobody es.Addr
		rng.Read(nobody[:])
		add("absent-account", h0, stB.Prove(nobody, d.slot), d.msg, reject)
	}
	{
		d1, d2 := take(), take()
		add("wrong-slot-other-deposits-value", h0, hon(d2), d1.msg, reject)
		d := take()
		add("absent-slot", h0, stB.Prove(ccmc, es.RandHash(rng)), d.msg, reject)
		d = take()
		m := append([]byte{}, d.msg...)
		m[rng.Intn(len(m))] ^= byte(1 << uint(rng.Intn(8)))
		add("message-one-bit-altered", h0, hon(d), m, reject)
		d = take()
		add("message-truncated", h0, hon(d), d.msg[:len(d.msg)-1], reject)
		d = take()
		add("message-extended", h0, hon(d), append(append([]byte{}, d.msg...), 0), reject)
		d = take()
		add("message-empty", h0, hon(d), nil, reject)
	}
	add("commitment-differs-in-first-byte", h0, stB.Prove(ccmc, slotNF), nearFirst.Serialize(), reject)
	add("commitment-differs-in-last-byte", h0, stB.Prove(ccmc, slotNL), nearLast.Serialize(), reject)
	add("valid-hash-with-leading-zero-byte", h0, stB.Prove(ccmc, slotLZ), lz.Serialize(), accept)
	for _, sc := range shorts {
		add(sc.name, h0, stB.Prove(ccmc, sc.slot), sc.msg, reject)
	}
	for _, ac := range aliens {
		add(ac.name, h0, stB.ProveRaw(ac.raw, ac.slot), ac.msg, reject)
	}
	add("fork-block-deposit", hf, stF.Prove(ccmc, fdep.slot), fdep.msg, reject)
	add("fork-block-deposit-at-other-height", h0, stF.Prove(ccmc, fdep.slot), fdep.msg, reject)
	d = take()
	cases = append(cases, kase{"proof-not-json", h0, []byte("\x00\x01garbage"), d.msg, reject})
	d = take()
	cases = append(cases, kase{"proof-empty", h0, nil, d.msg, reject})
	// claim true, proof form unusual: soundness only
	snd := func(name string, f func(p *es.Proof)) {
		d := take()
		p := hon(d)
		f(p)
		add(name, h0, p, d.msg, soundOnly)
	}
	snd("nodes-reversed", func(p *es.Proof) {
		rev := func(s []string) {
			for i, j := 0, len(s)-1; i < j; i, j = i+1, j-1 {
				s[i], s[j] = s[j], s[i]
			}
		}
		rev(p.AccountProof)
		rev(p.StorageProofs[0].Proof)
	})
	snd("junk-nodes-added", func(p *es.Proof) {
		q := stF.Prove(ccmc, fdep.slot)
		p.AccountProof = append(p.AccountProof, q.AccountProof...)
		p.StorageProofs[0].Proof = append(p.StorageProofs[0].Proof, "0x"+es.RandHash(rng).Hex())
	})
	snd("two-storage-proofs", func(p *es.Proof) { p.StorageProofs = append(p.StorageProofs, p.StorageProofs[0]) })
	snd("uppercase-hex-no-prefix", func(p *es.Proof) {
		p.Address = strings.ToUpper(strings.TrimPrefix(p.Address, "0x"))
		p.StorageHash = strings.ToUpper(strings.TrimPrefix(p.StorageHash, "0x"))
	})
	// valid again after all the hostile traffic, then its replay
	d = take()
	add("valid-after-hostile-traffic", h0+1, hon(d), d.msg, accept)
	add("replay-of-accepted", h0+1, hon(d), d.msg, recordOnly)

	src := fmt.Sprintf("%s w=%d", name, w)
	for _, c := range cases {
		if !runCase(r, e, name, chainID, w, src, c, g, head) {
			return
		}
	}
}

// runCase submits one case and judges the observed outcome.
func runCase(r *kit.Run, e *es.Env, router string, chainID, w uint64, src string, c kase, g, head uint64) bool {
	if c.height > 0xffffffff {
		return true
	}
	reqPrefix := utils.ConcatKey(utils.CrossChainManagerContractAddress, []byte("request"), utils.GetUint64Bytes(targetChain))
	before := e.Dump(reqPrefix)
	digestBefore := e.Digest(utils.CrossChainManagerContractAddress[:])
	kit.LastCase("C23 "+src+" "+c.name, c.proof)
	rec := e.Import(chainID, uint32(c.height), c.proof, c.extra)
	after := e.Dump(reqPrefix)
	r.Eval(1)
	r.Distinct(router, w, c.name, len(c.proof)/256, c.height-g)
	replay := map[string]interface{}{"router": router, "blocksToWait": w, "case": c.name, "height": c.height, "trustRootHeight": g, "head": head, "proof": string(c.proof), "extra": kit.Hex(c.extra), "error": rec.Err}
	if rec.Panic != nil {
		shape := c.name
		if c.height < g {
			shape = "height-below-trust-root"
		}
		r.Violation("router:"+router+" import-panics:"+shape, fmt.Sprintf("%s case %s height %d (trust root %d, head %d): ImportOuterTransfer panicked: %v", src, c.name, c.height, g, head, rec.Panic), replay)
		r.Count(router+":panics", 1)
		return true
	}
	delivered := [][]byte{}
	seen := map[string]bool{}
	for _, kv := range before {
		seen[string(kv.K)] = true
	}
	for _, kv := range after {
		if !seen[string(kv.K)] {
			v, err := cstates.GetValueFromRawStorageItem(kv.V)
			if err != nil {
				v = kv.V
			}
			delivered = append(delivered, v)
		}
	}
	accepted := rec.Ok && len(delivered) > 0
	if rec.Ok != (len(delivered) == 1) {
		r.Violation("router:"+router+" result-and-request-disagree", fmt.Sprintf("%s %s: ok=%v new requests=%d", src, c.name, rec.Ok, len(delivered)), replay)
		return true
	}
	if !rec.Ok && e.Digest(utils.CrossChainManagerContractAddress[:]) != digestBefore {
		r.Violation("router:"+router+" rejected-import-changed-state", fmt.Sprintf("%s %s", src, c.name), replay)
	}
	if accepted {
		// the delivered request must carry exactly the submitted message: varbytes(poly tx hash) | u64 source chain | message
		v := delivered[0]
		ok := len(v) > 9 && int(v[0])+9 <= len(v)
		if ok {
			rest := v[1+int(v[0]):]
			ok = binary.LittleEndian.Uint64(rest[:8]) == chainID && bytes.Equal(rest[8:], c.extra)
		}
		if !ok {
			r.Violation("router:"+router+" delivered-message-differs", fmt.Sprintf("%s %s: request %x, submitted %x", src, c.name, v, c.extra), replay)
			return true
		}
	}
	switch c.exp {
	case accept:
		if !accepted {
			r.Violation("router:"+router+" valid-deposit-rejected:"+c.name, fmt.Sprintf("%s: %s", src, rec.Err), replay)
		} else {
			r.Count(router+":accepted", 1)
			if strings.HasPrefix(c.name, "after-reorg") {
				r.Count(router+":accepted_in_heavier_shorter_fork", 1)
			}
			if c.name == "valid-at-confirmation-boundary" {
				r.Count(router+":accepted_at_confirmation_boundary", 1)
			}
			if c.name == "valid-deep" && w == 2 {
				r.Sample(map[string]interface{}{"router": router, "case": c.name, "height": c.height, "head": head, "blocksToWait": w, "proofBytes": len(c.proof), "messageBytes": len(c.extra)})
			}
		}
	case reject:
		if accepted {
			r.Violation("router:"+router+" invalid-deposit-accepted:"+c.name, fmt.Sprintf("%s height %d head %d", src, c.height, head), replay)
		} else {
			r.Count(router+":rejected", 1)
			switch c.name {
			case "one-short-of-confirmations":
				if w > 1 {
					r.Count(router+":rejected_one_short_of_confirmations", 1)
				}
			case "fork-block-deposit":
				r.Count(router+":rejected_fork_block_deposit", 1)
			}
			if strings.Contains(c.name, "orphaned-A-block-above-head") {
				r.Count(router+":rejected_orphan_above_head_after_reorg", 1)
			}
			if strings.Contains(c.name, "orphaned-A-block-at-or-below-head") {
				r.Count(router+":rejected_orphan_at_or_below_head_after_reorg", 1)
			}
			if strings.HasPrefix(c.name, "alien-address-") {
				r.Count(router+":rejected_alien_address", 1)
			}
			if c.name == "alien-address-ccmc-without-leading-zero-bytes" {
				r.Count(router+":rejected_alien_address_trimmed_ccmc", 1)
			}
			if strings.HasPrefix(c.name, "short-word-") {
				r.Count(router+":rejected_short_word", 1)
			}
		}
	case soundOnly:
		if accepted {
			r.Count(router+":noncanonical_form_accepted:"+c.name, 1)
		} else {
			r.Count(router+":noncanonical_form_rejected:"+c.name, 1)
		}
	case recordOnly:
		if accepted {
			r.Count(router+":replay_accepted", 1)
		} else {
			r.Count(router+":replay_rejected", 1)
		}
	}
	return true
}
