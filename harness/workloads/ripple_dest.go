package workloads

import (
	"encoding/json"
	"fmt"
	"math/big"
	"math/rand"

	"verifharness/kit"
	"verifharness/kit/nat"
	"verifharness/kit/pk"
	"verifharness/synth/ccmsynth"

	"github.com/polynetwork/poly/common"
	scom "github.com/polynetwork/poly/native/service/cross_chain_manager/common"
	"github.com/polynetwork/poly/native/service/cross_chain_manager/ripple"
	"github.com/polynetwork/poly/native/service/utils"
	rtypes "github.com/polynetwork/ripple-sdk/types"
	rcrypto "github.com/rubblelabs/ripple/crypto"
)

// rippleSigner is one member of the ripple multi-sign account's signer list. Its key is a
// deterministic function of the rng: 16 rng bytes are the family seed, imported the way a relayer
// imports its secret (types.ImportAccount). Signing is RFC6979 (btcec), so the whole workload is a
// function of the rng.
type rippleSigner struct {
	acct *rtypes.Account
	pub  []byte // compressed secp256k1 key of the account (what RippleExtraInfo.Pks registers)
}

func newRippleSigner(rng *rand.Rand) (*rippleSigner, error) {
	seed := make([]byte, 16)
	rng.Read(seed)
	fs, err := rcrypto.NewFamilySeed(seed)
	if err != nil {
		return nil, err
	}
	acct, err := rtypes.ImportAccount(fs.String())
	if err != nil {
		return nil, err
	}
	var zero uint32
	return &rippleSigner{acct: acct, pub: acct.Key.Public(&zero)}, nil
}

// ripplePayment is one payment the cross-chain manager built for the ripple chain.
type ripplePayment struct {
	txHash []byte // MakeTxParam.TxHash (source-chain tx hash): part of the record's storage key
	raw    string // hex of the unsigned payment as stored by the manager
}

// rippleSignedJSON multi-signs the raw payment with every given signer (in the given order) and
// returns the JSON a relayer would submit. Built ONCE per call: a monitor that re-executes the
// call re-executes it with the same bytes.
func rippleSignedJSON(raw string, who []*rippleSigner) (string, error) {
	p, err := rtypes.DeserializeRawMultiSignTx(raw)
	if err != nil {
		return "", err
	}
	// every signer signs the payment WITHOUT the other signers' entries (as on the ripple ledger:
	// Signers is not a signing field; the library at hand would otherwise hash the entries already
	// present), the entries are then put together
	for _, s := range who {
		one, err := s.acct.MultiSignTx(raw)
		if err != nil {
			return "", err
		}
		if len(one.Signers) != 1 {
			return "", fmt.Errorf("expected one signer entry, got %d", len(one.Signers))
		}
		p.Signers = append(p.Signers, one.Signers[0])
	}
	b, err := json.Marshal(p)
	if err != nil {
		return "", err
	}
	return string(b), nil
}

func rippleEvent(rec *nat.CallRecord, name string) []interface{} {
	for _, ev := range rec.Notify {
		if ev.ContractAddress != utils.CrossChainManagerContractAddress {
			continue
		}
		if st, ok := ev.States.([]interface{}); ok && len(st) > 0 {
			if s, ok := st[0].(string); ok && s == name {
				return st
			}
		}
	}
	return nil
}

// RippleDest: ripple as DESTINATION of the cross-chain manager. A vote-router source chain and a
// ripple-router destination whose extra info registers the real public keys of a k-of-n signer
// list; asset binding and base fee in place; payments released by a quorum of validator votes
// (ripple MakeTransaction stores the raw payment), then MultiSignRipple calls carrying really
// multi-signed payment JSON in several shapes (one signer per call, exactly / more than the quorum
// in one call, repeated signer, unregistered signer, signature over another payment, call after
// completion, unknown payment) and ReconstructRippleTx.
func RippleDest(r *kit.Run, rng *rand.Rand, pal *Palette) {
	const tag = "ripple_dest"
	vals := pk.NewKeys(rng, 4+rng.Intn(4))
	owner, operator, relayer := pk.NewKey(rng), pk.NewKey(rng), pk.NewKey(rng)
	w, err := ccmsynth.NewWorld(3, vals, owner)
	if err != nil {
		r.Count("workload_setup_failed:"+tag, 1)
		return
	}
	w.E.Record = true
	w.E.Height = 40
	defer func() {
		for _, rec := range w.E.Log {
			Track(r, rec.Ok, "ripple:"+rec.Method, len(rec.WriteSet), len(rec.Notify))
		}
	}()
	fail := func(why string) {
		r.Count("workload_setup_failed:"+tag, 1)
		r.Count("workload_setup_failed:"+tag+":"+why, 1)
	}

	// signer list: n accounts, quorum q, plus one outsider and the multi-sign account itself
	n := 3 + rng.Intn(3) // 3..5
	maxq := n
	if maxq > 4 {
		maxq = 4
	}
	q := 2 + rng.Intn(maxq-1) // 2..min(4,n)
	var signers []*rippleSigner
	var pks [][]byte
	for i := 0; i < n+2; i++ {
		s, err := newRippleSigner(rng)
		if err != nil {
			fail("signer")
			return
		}
		signers = append(signers, s)
	}
	outsider, vault := signers[n], signers[n+1]
	signers = signers[:n]
	for _, s := range signers {
		pks = append(pks, s.pub)
	}
	asset := append([]byte{}, vault.acct.Account.Bytes()...) // the multi-sign account on ripple (20 bytes)

	src := pal.Chain(31)
	dst := pal.Chain(32)
	for src == 0 {
		src += 1000003
	}
	for dst == 0 || dst == src {
		dst += 1000003
	}
	if err := w.RegisterAndApprove(ccmsynth.ChainSpec{ID: src, Router: utils.VOTE_ROUTER, Name: "votesrc", CCMC: make([]byte, 20)}); err != nil {
		fail("register-src")
		return
	}
	reserve := big.NewInt(int64(10 + rng.Intn(20)))
	seq := uint64(1 + rng.Intn(1<<20))
	extra := ccmsynth.RippleExtra(operator.Addr, seq, uint64(q), uint64(n), pks, reserve)
	if err := w.RegisterAndApprove(ccmsynth.ChainSpec{ID: dst, Router: utils.RIPPLE_ROUTER, Name: "xrpl", CCMC: asset, Extra: extra}); err != nil {
		fail("register-ripple")
		return
	}
	// asset binding: by somebody else (refused), then by the operator
	w.RegisterAsset(owner, dst, map[uint64][]byte{dst: asset}, map[uint64][]byte{dst: asset})
	if rec := w.RegisterAsset(operator, dst, map[uint64][]byte{dst: asset}, map[uint64][]byte{dst: asset}); !rec.Ok {
		fail("register-asset")
		return
	}
	// base fee of the ripple chain (view 0 -> 1 once a quorum of validators has voted)
	for _, v := range w.Vals {
		w.UpdateFee(v, dst, 0, big.NewInt(int64(2+rng.Intn(5))))
	}
	if view, _ := w.Fee(dst); view == 0 {
		fail("fee")
		return
	}

	ccm := utils.CrossChainManagerContractAddress
	height := uint32(100)
	// release: a message src -> ripple voted in by the validators; returns the payment the manager built
	release := func(assetHash, toContract []byte, amount uint64) *ripplePayment {
		to := make([]byte, 20)
		rng.Read(to)
		sink := common.NewZeroCopySink(nil)
		sink.WriteVarBytes(assetHash)
		sink.WriteVarBytes(to)
		sink.WriteUint64(amount)
		from := make([]byte, 20)
		rng.Read(from)
		p := &scom.MakeTxParam{TxHash: pal.Blob(rng, 32), CrossChainID: pal.Blob(rng, 8), FromContractAddress: from,
			ToChainID: dst, ToContractAddress: toContract, Method: "unlock", Args: sink.Bytes()}
		height++
		im := ccmsynth.Import{Source: src, Height: height, Param: p}
		var pay *ripplePayment
		for _, v := range w.Vals {
			rec := w.Vote(im, v)
			if st := rippleEvent(rec, "rippleTxJson"); st != nil && len(st) > 4 {
				if raw, ok := st[4].(string); ok {
					pay = &ripplePayment{txHash: p.TxHash, raw: raw}
				}
				break
			}
		}
		w.Vote(im, w.Vals[0]) // replay after the release (or one more refused vote)
		if pay == nil {
			r.Count("ripple_payment_not_released", 1)
			return nil
		}
		// what the event announced is what the manager stored
		if stored, err := ripple.GetTxJsonInfo(w.E.Service(), src, p.TxHash); err != nil || stored != pay.raw {
			r.Count("ripple_stored_payment_differs_from_event", 1)
		}
		r.Count("ripple_payments_released", 1)
		return pay
	}
	multiSignRaw := func(txHash []byte, txJSON string) *nat.CallRecord {
		p := &ripple.MultiSignParam{ToChainId: dst, AssetAddress: asset, FromChainId: src, TxHash: txHash, TxJson: txJSON}
		sink := common.NewZeroCopySink(nil)
		p.Serialization(sink)
		rec := w.E.Call(ccm, scom.MULTI_SIGN_RIPPLE, sink.Bytes(), pk.Single(relayer))
		if st := rippleEvent(rec, "multisignedTxJson"); st != nil {
			r.Count("ripple_multisign_quorum_reached", 1)
			collected := 0
			if len(st) > 4 {
				if js, ok := st[4].(string); ok {
					final := new(rtypes.MultisignPayment)
					if json.Unmarshal([]byte(js), final) == nil {
						collected = len(final.Signers)
					}
				}
			}
			if collected >= 3 {
				r.Count("ripple_multisign_quorum_reached_with_3_or_more_signers", 1)
			}
			r.Distinct("ripple-quorum", q, n, collected)
		}
		return rec
	}
	// multiSign: the given signers sign payment `signed` and the result is submitted for payment `pay`
	multiSign := func(pay, signed *ripplePayment, who ...*rippleSigner) *nat.CallRecord {
		js, err := rippleSignedJSON(signed.raw, who)
		if err != nil {
			r.Count("ripple_signing_failed", 1)
			return nil
		}
		return multiSignRaw(pay.txHash, js)
	}
	reconstruct := func(txHash []byte) *nat.CallRecord {
		p := &ripple.ReconstructTxParam{FromChainId: src, TxHash: txHash, ToChainId: dst}
		sink := common.NewZeroCopySink(nil)
		p.Serialization(sink)
		return w.E.Call(ccm, scom.RECONSTRUCT_RIPPLE_TX, sink.Bytes(), pk.Single(relayer))
	}
	pick := func(idx []int) []*rippleSigner {
		var out []*rippleSigner
		for _, i := range idx {
			out = append(out, signers[i])
		}
		return out
	}
	amount := func() uint64 { return uint64(20000000 + rng.Intn(1<<30)) }

	// messages the ripple router refuses: amount below fee + reserve, foreign asset hash, foreign
	// destination contract
	release(asset, asset, uint64(1+rng.Intn(5)))
	other := make([]byte, 20)
	rng.Read(other)
	release(other, asset, amount())
	release(asset, other, amount())

	var pays []*ripplePayment
	for i := 0; i < 7; i++ {
		if p := release(asset, asset, amount()); p != nil {
			pays = append(pays, p)
		}
	}
	if len(pays) < 7 {
		// (a palette may repeat cross-chain ids: those messages are refused as already done)
		r.Count("ripple_dest_short_of_payments", 1)
	}
	next := func() *ripplePayment {
		if len(pays) == 0 {
			return nil
		}
		p := pays[0]
		pays = pays[1:]
		return p
	}

	// unknown payment; reconstruction of an unknown payment
	if len(pays) > 0 {
		multiSign(&ripplePayment{txHash: pal.Blob(rng, 32), raw: pays[0].raw}, pays[0], signers[0])
		reconstruct(pal.Blob(rng, 32))
		multiSignRaw(pays[0].txHash, "{not json")
	}

	// 1. one signer per call until the quorum, one more signer afterwards
	if p := next(); p != nil {
		perm := rng.Perm(n)
		reconstruct(p.txHash) // before any signature
		for i := 0; i < q; i++ {
			multiSign(p, p, signers[perm[i]])
		}
		multiSign(p, p, signers[perm[q%n]]) // already done
		reconstruct(p.txHash)
	}
	// 2. exactly the quorum in one call
	if p := next(); p != nil {
		perm := rng.Perm(n)
		multiSign(p, p, pick(perm[:q])...)
		multiSign(p, p, pick(perm[:1])...) // already done
		reconstruct(p.txHash)
	}
	// 3. more signers than the quorum in one call
	if p := next(); p != nil {
		perm := rng.Perm(n)
		k := n
		if n > q+1 {
			k = q + 1 + rng.Intn(n-q)
		}
		multiSign(p, p, pick(perm[:k])...)
		reconstruct(p.txHash)
		multiSign(p, p, pick(perm)...) // already done
	}
	// 4. a repeated signer, an unregistered signer (alone and next to a registered one), then all the others
	if p := next(); p != nil {
		perm := rng.Perm(n)
		first := signers[perm[0]]
		multiSign(p, p, first)
		multiSign(p, p, first)
		multiSign(p, p, outsider)
		multiSign(p, p, first, outsider)
		multiSign(p, p, signers[perm[1]], outsider)
		multiSign(p, p, pick(perm[1:])...)
		reconstruct(p.txHash)
	}
	// 5. one short of the quorum in one call, the rest (all of them) in the next
	if p := next(); p != nil {
		perm := rng.Perm(n)
		multiSign(p, p, pick(perm[:q-1])...)
		multiSign(p, p, pick(perm[q-1:])...)
		multiSign(p, p, outsider) // already done: not even looked at
		reconstruct(p.txHash)
	}
	// 6. the same signer twice in one call, signatures made over ANOTHER payment, then everybody,
	//    partly already collected
	if p := next(); p != nil {
		perm := rng.Perm(n)
		multiSign(p, p, signers[perm[0]], signers[perm[0]])
		if p2 := next(); p2 != nil {
			multiSign(p, p2, signers[perm[1]])
			multiSign(p, p2, pick(perm)...)
			// 7. p2: everybody in one call, in registration order
			multiSign(p2, p2, signers...)
			reconstruct(p2.txHash)
		}
		k := 3
		if q > k {
			k = q
		}
		multiSign(p, p, pick(perm[:k])...)
		reconstruct(p.txHash)
	}
	r.Distinct("ripple-dest", n, q, len(w.Vals))
	r.Count("router_workload:"+tag, 1)
}
