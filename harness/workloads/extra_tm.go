package workloads

// Extra: compact tours through the Tendermint-family (cosmos v10 / v11, okex, heimdall), Ontology
// and NEO (neo, neo3, neo3legacy) routers for the cross-cutting monitors. Each tour uses its own
// contract universe, drives only the real entrances (syncGenesisHeader, syncBlockHeader,
// syncCrossChainMsg, ImportOuterTransfer, neo3_state_manager) with honest and dishonest synthetic
// data, and is a function of rng. Workloads only drive; monitors judge.

import (
	"bytes"
	"crypto/sha256"
	"fmt"
	"math/rand"

	ethcrypto "github.com/ethereum/go-ethereum/crypto"
	neohelper "github.com/joeqian10/neo-gogogo/helper"
	pcommon "github.com/polynetwork/poly/common"
	"github.com/polynetwork/poly/native/service/header_sync/cosmos"
	"github.com/polynetwork/poly/native/service/header_sync/okex"
	"github.com/polynetwork/poly/native/service/utils"
	"github.com/tendermint/tendermint/crypto/merkle"

	"verifharness/kit"
	"verifharness/kit/nat"
	"verifharness/kit/pk"
	"verifharness/synth/chains"
	"verifharness/synth/hmsynth"
	n3l "verifharness/synth/n3lsynth"
	n3 "verifharness/synth/n3synth"
	"verifharness/synth/neosynth"
	"verifharness/synth/ontsynth"
	"verifharness/synth/tmsynth"
)

const extraNet = 3

// tourEnv: a universe with governance, the source chain and a target chain for deposits.
func tourEnv(r *kit.Run, rng *rand.Rand, pal *Palette, name string, def uint64, router uint64, ccmc, extra []byte) (e *nat.Env, id, target uint64, ok bool) {
	e = nat.New(extraNet)
	e.Record = true
	if err := e.InitGovernance(pk.NewKeys(rng, 4)); err != nil {
		r.Count("workload_setup_failed:"+name, 1)
		return nil, 0, 0, false
	}
	id = pal.Chain(def)
	target = pal.Chain(def + 500)
	if target == id {
		target = id + 1000003
	}
	if err := chains.Register(e, id, router, name, 1, ccmc, extra); err != nil {
		r.Count("workload_setup_failed:"+name, 1)
		finish(r, e, name)
		return nil, 0, 0, false
	}
	if err := chains.Register(e, target, utils.ETH_ROUTER, "target", 1, make([]byte, 20), nil); err != nil {
		r.Count("workload_setup_failed:"+name, 1)
		finish(r, e, name)
		return nil, 0, 0, false
	}
	return e, id, target, true
}

func finish(r *kit.Run, e *nat.Env, name string) {
	for _, rec := range e.Log {
		Track(r, rec.Ok, name+":"+rec.Method, len(rec.WriteSet), len(rec.Notify))
	}
}

func message(rng *rand.Rand, pal *Palette, target uint64) []byte {
	return chains.MakeTxParam(pal.Blob(rng, 32), pal.Blob(rng, 8), []byte("lock-proxy"), target, []byte("target-proxy"), "unlock", pal.Blob(rng, 24))
}

type tmProofValue struct {
	Kp    string
	Value []byte
}

// tmTour: cosmos (block version 10 or 11) and okex.
func tmTour(r *kit.Run, rng *rand.Rand, pal *Palette, name string, def uint64, bv uint64) {
	isOkex := name == "okex"
	router := utils.COSMOS_ROUTER
	var ccmc []byte
	store, others := "ccm", []string{"acc", "bank"}
	if isOkex {
		router = utils.OKEX_ROUTER
		ccmc = bytes.Repeat([]byte{0xC7}, 20)
		store, others = "evm", []string{"acc"}
	}
	e, id, target, ok := tourEnv(r, rng, pal, name, def, router, ccmc, nil)
	if !ok {
		return
	}
	defer finish(r, e, name)
	okCdc := okex.NewCDC()
	encode := func(b *tmsynth.Built) []byte {
		if isOkex {
			return okCdc.MustMarshalBinaryBare(okex.CosmosHeader{Header: b.Header, Commit: b.Commit, Valsets: b.Valsets})
		}
		return cosmos.Cdc.MustMarshalBinaryBare(cosmos.CosmosHeader{Header: b.Header, Commit: b.Commit, Valsets: b.Valsets})
	}
	encProof := func(p *merkle.Proof) []byte {
		if isOkex {
			return okCdc.MustMarshalBinaryBare(*p)
		}
		return cosmos.Cdc.MustMarshalBinaryBare(*p)
	}
	encExtra := func(kp string, v []byte) []byte {
		if isOkex {
			return okCdc.MustMarshalBinaryBare(tmProofValue{kp, v})
		}
		return cosmos.Cdc.MustMarshalBinaryBare(tmProofValue{kp, v})
	}
	pw := func(i int) int64 { return int64(1 + rng.Intn(9)) }
	newVals := func(n int) []*tmsynth.Val {
		vs := make([]*tmsynth.Val, n)
		for i := range vs {
			k := tmsynth.NewKey(rng, false)
			vs[i] = &tmsynth.Val{Priv: k, Pub: k.PubKey(), Power: pw(i)}
		}
		return vs
	}
	A, B := newVals(3), newVals(4)
	hA, hB := tmsynth.Hash(A, bv), tmsynth.Hash(B, bv)
	const label = "tour-1"
	h0 := int64(100 + rng.Intn(100))
	build := func(s tmsynth.Spec) []byte {
		s.ChainID, s.BlockVersion = label, bv
		return encode(tmsynth.Build(s, rng))
	}
	op := nat.Operator(e.Validators)
	gen := build(tmsynth.Spec{Height: h0, Vals: A, NextHash: hA})
	chains.SyncGenesis(e, id, gen, pk.Single(e.Validators[0])) // not the operator
	if rec := chains.SyncGenesis(e, id, gen, op); !rec.Ok {
		r.Count("workload_setup_failed:"+name, 1)
		return
	}
	chains.SyncGenesis(e, id, gen, op) // second installation
	// application state of the source chain
	st := tmsynth.NewStore(store, others...)
	msg := message(rng, pal, target)
	var key []byte
	if isOkex {
		key = append(append([]byte{0x05}, ccmc...), sha256sum(msg)...)
		st.Set(key, ethcrypto.Keccak256(msg))
	} else {
		key = append([]byte("makeTx/"), pal.Blob(rng, 12)...)
		st.Set(key, msg)
	}
	st.Set(append(append([]byte{}, key...), 1), []byte("neighbour"))
	ver := st.Commit()
	proof, _ := st.Prove(ver.Ver, key)
	kp := st.KeyPath(key)
	none := make([]tmsynth.SigKind, len(A))
	for i := range none {
		none[i] = tmsynth.SigAbsent
	}
	// deposits under a header without validator change
	dep := build(tmsynth.Spec{Height: h0 + 1, Vals: A, NextHash: hA, AppHash: ver.AppHash})
	chains.Import(e, id, uint32(h0+1), encProof(proof), encExtra(kp, msg), dep)                                                                                           // valid
	chains.Import(e, id, uint32(h0+1), encProof(proof), encExtra(kp, msg), dep)                                                                                           // replay
	chains.Import(e, id, uint32(h0+1), encProof(proof), encExtra(kp, message(rng, pal, target)), dep)                                                                     // message not committed
	chains.Import(e, id, uint32(h0+1), encProof(proof), encExtra("", msg), dep)                                                                                           // empty key path
	chains.Import(e, id, uint32(h0+1), encProof(proof), encExtra(kp, msg), build(tmsynth.Spec{Height: h0 + 1, Vals: A, NextHash: hA, AppHash: ver.AppHash, Kinds: none})) // header without quorum
	// header sync
	chains.SyncHeaders(e, id, [][]byte{dep})                                                                                                                    // no validator change: useless
	chains.SyncHeaders(e, id, [][]byte{build(tmsynth.Spec{Height: h0 + 2, Vals: A, NextHash: hB, Kinds: none})})                                                // no quorum
	chains.SyncHeaders(e, id, [][]byte{build(tmsynth.Spec{Height: h0 + 2, Vals: B, NextHash: hA})})                                                             // foreign validator set
	chains.SyncHeaders(e, id, [][]byte{build(tmsynth.Spec{Height: h0 + 3, Vals: A, NextHash: hB})})                                                             // epoch change A -> B
	chains.SyncHeaders(e, id, [][]byte{build(tmsynth.Spec{Height: h0 + 2, Vals: B, NextHash: hA})})                                                             // not higher
	chains.SyncHeaders(e, id, [][]byte{build(tmsynth.Spec{Height: h0 + 5, Vals: B, NextHash: hA}), build(tmsynth.Spec{Height: h0 + 6, Vals: A, NextHash: hB})}) // two changes in one call
	chains.SyncHeaders(e, id, [][]byte{{0x01, 0x02}})                                                                                                           // undecodable
	r.Count("router_workload:"+name+fmt.Sprintf("-v%d", bv), 1)
}

func sha256sum(b []byte) []byte { h := sha256.Sum256(b); return h[:] }

// fakeProof is a well-framed but meaningless NEO state proof: var-bytes storage key, one var-bytes
// node. neo2 storage key = 20-byte script hash + 16-byte groups each followed by a padding byte
// (the last one non-zero); neo3 storage key = int32 contract id + key bytes. Unframed random bytes
// are avoided on purpose: the library decoders loop / allocate without bound on them.
func fakeProof(rng *rand.Rand, pal *Palette, neo3 bool) []byte {
	fit := func(b []byte, n int) []byte {
		out := make([]byte, n)
		copy(out, b)
		return out
	}
	var key []byte
	if neo3 {
		key = append([]byte{5, 0, 0, 0}, fit(pal.Blob(rng, 12), 12)...)
	} else {
		key = append(fit(pal.Blob(rng, 20), 20), fit(pal.Blob(rng, 8), 16)...)
		key = append(key, 8) // 8 padding bytes in the only group
	}
	node := make([]byte, 40)
	rng.Read(node)
	out := append([]byte{byte(len(key))}, key...)
	out = append(out, 1, byte(len(node)))
	return append(out, node...)
}

func heimdallTour(r *kit.Run, rng *rand.Rand, pal *Palette) {
	const name = "heimdall"
	e, id, _, ok := tourEnv(r, rng, pal, name, 2715, utils.POLYGON_HEIMDALL_ROUTER, nil, nil)
	if !ok {
		return
	}
	defer finish(r, e, name)
	A := hmsynth.NewVals(rng, []int64{3, 2, 2, 1})
	B := hmsynth.NewVals(rng, []int64{5, 5, 1})
	all := map[int]bool{0: true, 1: true, 2: true, 3: true}
	h0 := int64(200 + rng.Intn(100))
	if rec := chains.SyncGenesis(e, id, hmsynth.Build("hm-1", h0, A, hmsynth.Hash(A), nil), nat.Operator(e.Validators)); !rec.Ok {
		r.Count("workload_setup_failed:"+name, 1)
		return
	}
	chains.SyncHeaders(e, id, [][]byte{hmsynth.Build("hm-1", h0+1, A, hmsynth.Hash(B), map[int]bool{0: true})}) // no quorum
	chains.SyncHeaders(e, id, [][]byte{hmsynth.Build("hm-1", h0+2, A, hmsynth.Hash(B), all)})                   // epoch change
	chains.SyncHeaders(e, id, [][]byte{hmsynth.Build("hm-1", h0+1, B, hmsynth.Hash(A), all)})                   // not higher
	r.Count("router_workload:"+name, 1)
}

func ontTour(r *kit.Run, rng *rand.Rand, pal *Palette) {
	const name = "ont"
	e, id, target, ok := tourEnv(r, rng, pal, name, 2703, utils.ONT_ROUTER, nil, nil)
	if !ok {
		return
	}
	defer finish(r, e, name)
	S0, S1 := pk.NewKeys(rng, 4), pk.NewKeys(rng, 5)
	g := uint32(300 + rng.Intn(100))
	gen := ontsynth.Header(g, ontsynth.Payload(S0, 0, nil), 0)
	if rec := chains.SyncGenesis(e, id, ontsynth.RawHeader(gen), nat.Operator(e.Validators)); !rec.Ok {
		r.Count("workload_setup_failed:"+name, 1)
		return
	}
	hdr := func(height uint32, payload []byte, members []*pk.Key, kinds ...ontsynth.EntryKind) []byte {
		h := ontsynth.Header(height, payload, height)
		hash := h.Hash()
		h.Bookkeepers, h.SigData = ontsynth.Split(ontsynth.Entries(rng, hash[:], members, kinds))
		return ontsynth.RawHeader(h)
	}
	V, D := ontsynth.Valid, ontsynth.DupSameSig
	chains.SyncHeaders(e, id, [][]byte{hdr(g+1, ontsynth.Payload(nil, g, nil), S0, V, V)})     // ok
	chains.SyncHeaders(e, id, [][]byte{hdr(g+2, ontsynth.Payload(nil, g, nil), S0)})           // nobody signed
	chains.SyncHeaders(e, id, [][]byte{hdr(g+3, ontsynth.Payload(S1, g+3, nil), S0, V, V, V)}) // key height: new peer set
	chains.SyncHeaders(e, id, [][]byte{hdr(g+4, ontsynth.Payload(nil, g+3, nil), S1, V, D)})   // one signer twice
	chains.SyncHeaders(e, id, [][]byte{hdr(g+4, ontsynth.Payload(nil, g+3, nil), S1, V, V)})   // ok under the new set
	chains.SyncHeaders(e, id, [][]byte{hdr(g+5, ontsynth.Payload(nil, g+3, nil), S0, V, V)})   // signed by the old set
	mkMsg := func(height uint32, value []byte, members []*pk.Key, kinds ...ontsynth.EntryKind) []byte {
		m := ontsynth.Msg(height, sha256.Sum256(append([]byte{0}, value...)))
		hash := m.Hash()
		keys, sigs := ontsynth.Split(ontsynth.Entries(rng, hash[:], members, kinds))
		m.SigData = sigs
		return ontsynth.RawMsg(m, keys)
	}
	v1, v2 := message(rng, pal, target), message(rng, pal, target)
	chains.SyncMsgs(e, id, [][]byte{mkMsg(g+6, v1, S1, V, V)})    // ok
	chains.SyncMsgs(e, id, [][]byte{mkMsg(g+7, v2, S1, V, D, D)}) // one signer three times
	prf := func(v []byte) []byte { s := pcommon.NewZeroCopySink(nil); s.WriteVarBytes(v); return s.Bytes() }
	chains.Import(e, id, g+6, prf(v1), nil, nil)                      // uses the stored message
	chains.Import(e, id, g+6, prf(v1), nil, nil)                      // replay
	chains.Import(e, id, g+8, prf(v2), nil, mkMsg(g+8, v2, S1, V, V)) // message travels with the import
	chains.Import(e, id, g+9, prf(v1), nil, mkMsg(g+9, v2, S1, V, V)) // proof does not match the root
	r.Count("router_workload:"+name, 1)
}

func neoTour(r *kit.Run, rng *rand.Rand, pal *Palette) {
	const name = "neo"
	e, id, _, ok := tourEnv(r, rng, pal, name, 2704, utils.NEO_ROUTER, bytes.Repeat([]byte{0x4e}, 20), nil)
	if !ok {
		return
	}
	defer finish(r, e, name)
	A, B := neosynth.NewSet(rng, 4, 3), neosynth.NewSet(rng, 4, 3)
	i0 := uint32(400 + rng.Intn(100))
	if rec := chains.SyncGenesis(e, id, neosynth.RawHeader(neosynth.Header(i0, A.Hash, 0)), nat.Operator(e.Validators)); !rec.Ok {
		r.Count("workload_setup_failed:"+name, 1)
		return
	}
	hdr := func(index uint32, signer, next *neosynth.Set, k int) []byte {
		h := neosynth.Header(index, next.Hash, index)
		kinds := make([]neosynth.SlotKind, k)
		h.Witness.InvocationScript = neosynth.Invocation(signer.Sigs(rng, neosynth.HeaderMessage(h), kinds, []int{0, 1, 2, 3}))
		h.Witness.VerificationScript = signer.Script
		return neosynth.RawHeader(h)
	}
	chains.SyncHeaders(e, id, [][]byte{hdr(i0+1, A, B, 2)}) // below m
	chains.SyncHeaders(e, id, [][]byte{hdr(i0+2, B, B, 3)}) // foreign committee
	chains.SyncHeaders(e, id, [][]byte{hdr(i0+3, A, B, 3)}) // validator change
	chains.SyncHeaders(e, id, [][]byte{hdr(i0+1, B, A, 3)}) // not higher
	sroot := func(signer *neosynth.Set, k int) []byte {
		var root [32]byte
		rng.Read(root[:])
		sr := neosynth.StateRoot(i0+10, root)
		kinds := make([]neosynth.SlotKind, k)
		sr.Witness.InvocationScript = neohelper.BytesToHex(neosynth.Invocation(signer.Sigs(rng, neosynth.StateRootMessage(sr), kinds, []int{0, 1, 2, 3})))
		sr.Witness.VerificationScript = neohelper.BytesToHex(signer.Script)
		return neosynth.RawStateRoot(sr)
	}
	junk := fakeProof(rng, pal, false)
	chains.Import(e, id, i0+10, junk, nil, sroot(B, 3)) // verified state root, unusable proof
	chains.Import(e, id, i0+10, junk, nil, sroot(A, 3)) // state root of the replaced committee
	chains.SyncMsgs(e, id, [][]byte{sroot(B, 3)})
	r.Count("router_workload:"+name, 1)
}

func neo3Tour(r *kit.Run, rng *rand.Rand, pal *Palette) {
	const name = "neo3"
	const magic = uint32(860833102)
	e, id, _, ok := tourEnv(r, rng, pal, name, 2714, utils.NEO3_ROUTER, []byte{5, 0, 0, 0}, []byte{byte(magic & 0xff), byte(magic >> 8 & 0xff), byte(magic >> 16 & 0xff), byte(magic >> 24)})
	if !ok {
		return
	}
	defer finish(r, e, name)
	A, B := n3.FromKeys(n3.NewKeys(rng, 4), 3), n3.FromKeys(n3.NewKeys(rng, 4), 3)
	SV := n3.FromKeys(n3.NewKeys(rng, 4), 3)
	if err := chains.RegisterStateValidators(e, SV.PubStrings()); err != nil {
		r.Count("workload_setup_failed:"+name, 1)
		return
	}
	i0 := uint32(500 + rng.Intn(100))
	if rec := chains.SyncGenesis(e, id, n3.RawHeader(n3.Header(i0, A.Hash, 0)), nat.Operator(e.Validators)); !rec.Ok {
		r.Count("workload_setup_failed:"+name, 1)
		return
	}
	hdr := func(index uint32, signer, next *n3.Set, k int) []byte {
		h := n3.Header(index, next.Hash, index)
		kinds := make([]n3.SlotKind, k)
		n3.SetWitness(h, n3.Invocation(signer.Sigs(rng, n3.HeaderMessage(h, magic), kinds, []int{0, 1, 2, 3})), signer.Script)
		return n3.RawHeader(h)
	}
	chains.SyncHeaders(e, id, [][]byte{hdr(i0+1, A, B, 2)})
	chains.SyncHeaders(e, id, [][]byte{hdr(i0+2, B, B, 3)}) // foreign committee
	chains.SyncHeaders(e, id, [][]byte{hdr(i0+3, A, B, 3)})
	chains.SyncHeaders(e, id, [][]byte{hdr(i0+1, B, A, 3)})
	sroot := func(signer *n3.Set, k int) []byte {
		var root [32]byte
		rng.Read(root[:])
		sr := n3.StateRoot(i0+10, root)
		kinds := make([]n3.SlotKind, k)
		n3.SetStateRootWitness(sr, n3.Invocation(signer.Sigs(rng, n3.StateRootMessage(sr, magic), kinds, []int{0, 1, 2, 3})), signer.Script)
		return n3.RawStateRoot(sr)
	}
	junk := fakeProof(rng, pal, true)
	chains.Import(e, id, i0+10, junk, nil, sroot(SV, 3))
	chains.Import(e, id, i0+10, junk, nil, sroot(A, 3))
	r.Count("router_workload:"+name, 1)
}

func neo3LegacyTour(r *kit.Run, rng *rand.Rand, pal *Palette) {
	const name = "neo3legacy"
	const magic = uint32(844378958)
	e, id, _, ok := tourEnv(r, rng, pal, name, 2711, utils.NEO3_LEGACY_ROUTER, []byte{5, 0, 0, 0}, []byte{byte(magic & 0xff), byte(magic >> 8 & 0xff), byte(magic >> 16 & 0xff), byte(magic >> 24)})
	if !ok {
		return
	}
	defer finish(r, e, name)
	A, B := n3l.FromKeys(n3l.NewKeys(rng, 4), 3), n3l.FromKeys(n3l.NewKeys(rng, 4), 3)
	i0 := uint32(600 + rng.Intn(100))
	if rec := chains.SyncGenesis(e, id, n3l.RawHeader(n3l.Header(i0, A.Hash, 0)), nat.Operator(e.Validators)); !rec.Ok {
		r.Count("workload_setup_failed:"+name, 1)
		return
	}
	hdr := func(index uint32, signer, next *n3l.Set, k int) []byte {
		h := n3l.Header(index, next.Hash, index)
		kinds := make([]n3l.SlotKind, k)
		n3l.SetWitness(h, n3l.Invocation(signer.Sigs(rng, n3l.HeaderMessage(h, magic), kinds, []int{0, 1, 2, 3})), signer.Script)
		return n3l.RawHeader(h)
	}
	chains.SyncHeaders(e, id, [][]byte{hdr(i0+1, A, B, 2)})
	chains.SyncHeaders(e, id, [][]byte{hdr(i0+3, A, B, 3)})
	chains.SyncHeaders(e, id, [][]byte{hdr(i0+1, B, A, 3)})
	chains.SyncHeaders(e, id, [][]byte{hdr(i0+4, A, A, 3)}) // signed by the replaced committee
	// (cross_chain_manager has no handler for the neo3legacy router: no import)
	r.Count("router_workload:"+name, 1)
}

// Extra: tendermint / ontology / neo routers.
func Extra(r *kit.Run, rng *rand.Rand, pal *Palette) {
	tmTour(r, rng, pal, "cosmos", 2705, 10)
	tmTour(r, rng, pal, "cosmos", 2706, 11)
	tmTour(r, rng, pal, "okex", 2712, 10)
	heimdallTour(r, rng, pal)
	ontTour(r, rng, pal)
	neoTour(r, rng, pal)
	neo3Tour(r, rng, pal)
	neo3LegacyTour(r, rng, pal)
}
