// C07: the node's Merkle proof verifiers are sound.
//
// Oracle (semantic): a verifier call that returns success ACCEPTS A CLAIM. Under SHA-256 collision
// resistance the only preimages known for a hash are the ones of the reference forest built here
// (all prefix trees MTH(D[0:n]) of one leaf list D, built by the checker's own recursive RFC 6962
// code). The truth of an accepted claim is therefore decided by walking that hash DAG top-down,
// independently of the proof that was presented and of any poly code:
//
//	inclusion (h, i, n, R)   true iff following from R the left/right turns that RFC 6962
//	                         prescribes for leaf i of an n-leaf tree ends exactly at node h;
//	path proof (value, R)    true iff leafhash(value) == R or is a leaf below R in the DAG;
//	consistency (m,n,r1,r2)  true iff m == 0, or r1 equals the hash of the first m leaves of the
//	                         n-leaf tree whose root is r2 (recomputed from the DAG).
//
// Every ACCEPTED FALSE claim is a violation. Accepted true claims reached through altered proofs
// (flag bytes != 0 read as RIGHT, ignored short trailing bytes, a different size with the same
// turn sequence) are only counted as malleability observations.
package c07

import (
	"bytes"
	"crypto/sha256"
	"encoding/binary"
	"fmt"
	"math/rand"
	"sort"
	"strings"
	"testing"

	"verifharness/kit"

	"github.com/polynetwork/poly/common"
	"github.com/polynetwork/poly/merkle"
)

type H = [32]byte

func leafHash(d []byte) H { return sha256.Sum256(append([]byte{0x00}, d...)) }

func nodeHash(l, r H) H {
	b := make([]byte, 0, 65)
	b = append(b, 0x01)
	b = append(b, l[:]...)
	b = append(b, r[:]...)
	return sha256.Sum256(b)
}

func pow2below(n uint64) uint64 { // largest power of two strictly smaller than n (n >= 2)
	k := uint64(1)
	for k*2 < n {
		k *= 2
	}
	return k
}

// forest = reference leaf list + the hash DAG of all its prefix trees.
type forest struct {
	leaves   [][]byte
	lh       []H
	memo     map[[2]int]H
	children map[H][2]H
	isLeaf   map[H]bool
}

func newForest() *forest {
	return &forest{memo: map[[2]int]H{}, children: map[H][2]H{}, isLeaf: map[H]bool{}}
}

func (f *forest) add(d []byte) {
	f.leaves = append(f.leaves, append([]byte{}, d...))
	h := leafHash(d)
	f.lh = append(f.lh, h)
	f.isLeaf[h] = true
}

func (f *forest) mth(lo, hi int) H {
	n := hi - lo
	if n == 0 {
		return sha256.Sum256(nil)
	}
	if n == 1 {
		return f.lh[lo]
	}
	key := [2]int{lo, hi}
	if v, ok := f.memo[key]; ok {
		return v
	}
	k := int(pow2below(uint64(n)))
	l, r := f.mth(lo, lo+k), f.mth(lo+k, hi)
	v := nodeHash(l, r)
	f.memo[key] = v
	f.children[v] = [2]H{l, r}
	return v
}

func (f *forest) root(n int) H { return f.mth(0, n) }

// RFC 6962 2.1.1 PATH(m, D[lo:hi]) listed leaf-to-root, with the side of each sibling.
type step struct {
	h             H
	siblingIsLeft bool
}

func (f *forest) path(m, lo, hi int) []step {
	n := hi - lo
	if n == 1 {
		return nil
	}
	k := int(pow2below(uint64(n)))
	if m < k {
		return append(f.path(m, lo, lo+k), step{f.mth(lo+k, hi), false})
	}
	return append(f.path(m-k, lo+k, hi), step{f.mth(lo, lo+k), true})
}

// RFC 6962 2.1.2 SUBPROOF(m, D[lo:hi], b)
func (f *forest) subproof(m, lo, hi int, b bool) []H {
	n := hi - lo
	if m == n {
		if b {
			return nil
		}
		return []H{f.mth(lo, hi)}
	}
	k := int(pow2below(uint64(n)))
	if m <= k {
		return append(f.subproof(m, lo, lo+k, b), f.mth(lo+k, hi))
	}
	return append(f.subproof(m-k, lo+k, hi, false), f.mth(lo, lo+k))
}

// ---- truth of claims, decided in the DAG only

func (f *forest) inclTrue(h H, i, n uint64, R H) bool {
	if i >= n {
		return false
	}
	cur := R
	for n > 1 {
		ch, ok := f.children[cur]
		if !ok {
			return false
		}
		k := pow2below(n)
		if i < k {
			cur, n = ch[0], k
		} else {
			cur, i, n = ch[1], i-k, n-k
		}
	}
	return cur == h
}

// auditPath: the sibling hashes (leaf-to-root) met when walking from R along the RFC 6962 turn
// sequence of (i, n) in the reference DAG; ok=false if the walk leaves the DAG. For a true claim
// (h,i,n,R) this list is THE audit path: a verifier that binds every submitted hash to the root can,
// under collision resistance, accept no other list (in particular no longer one).
func (f *forest) auditPath(i, n uint64, R H) ([]H, bool) {
	if i >= n {
		return nil, false
	}
	var topDown []H
	cur := R
	for n > 1 {
		ch, ok := f.children[cur]
		if !ok {
			return nil, false
		}
		k := pow2below(n)
		if i < k {
			topDown = append(topDown, ch[1])
			cur, n = ch[0], k
		} else {
			topDown = append(topDown, ch[0])
			cur, i, n = ch[1], i-k, n-k
		}
	}
	out := make([]H, len(topDown))
	for j := range topDown {
		out[len(topDown)-1-j] = topDown[j]
	}
	return out, true
}

func sameList(a, b []H) bool {
	if len(a) != len(b) {
		return false
	}
	for i := range a {
		if a[i] != b[i] {
			return false
		}
	}
	return true
}

// prefixRoot = hash of the first m leaves of the n-leaf tree rooted at R (0 < m <= n).
func (f *forest) prefixRoot(R H, n, m uint64) (H, bool) {
	if m == n {
		return R, true
	}
	ch, ok := f.children[R]
	if !ok {
		return H{}, false
	}
	k := pow2below(n)
	if m <= k {
		return f.prefixRoot(ch[0], k, m)
	}
	sub, ok := f.prefixRoot(ch[1], n-k, m-k)
	if !ok {
		return H{}, false
	}
	return nodeHash(ch[0], sub), true
}

func (f *forest) consTrue(m, n uint64, r1, r2 H) bool {
	if m > n {
		return false
	}
	if m == 0 {
		return true // every tree extends the empty tree (soundness decision, DESIGN §8)
	}
	p, ok := f.prefixRoot(r2, n, m)
	return ok && p == r1
}

func (f *forest) leafBelow(R H, h H) bool {
	if R == h {
		return true
	}
	ch, ok := f.children[R]
	if !ok {
		return false
	}
	return f.leafBelow(ch[0], h) || f.leafBelow(ch[1], h)
}

func (f *forest) pathTrue(value []byte, R []byte) bool {
	if len(R) != 32 {
		return false
	}
	var r H
	copy(r[:], R)
	return f.leafBelow(r, leafHash(value))
}

// siblingsMatch: is elems (listed leaf-to-root) exactly the sequence of sibling hashes on some
// downward path of the reference DAG from node to the leaf hash `leaf`? The sides (flag bytes) are
// not looked at. Under collision resistance a verifier that hashes every submitted element into the
// running hash can only reach a known root with exactly such a sequence, so a path proof that is
// accepted although its elements are NOT the sibling sequence contains elements the verifier did
// not bind to the root: the proof does not correspond to the claimed leaf and root.
func (f *forest) siblingsMatch(node H, leaf H, elems []H) bool {
	if len(elems) == 0 {
		return node == leaf
	}
	ch, ok := f.children[node]
	if !ok {
		return false
	}
	top := elems[len(elems)-1]
	rest := elems[:len(elems)-1]
	if top == ch[1] && f.siblingsMatch(ch[0], leaf, rest) {
		return true
	}
	return top == ch[0] && f.siblingsMatch(ch[1], leaf, rest)
}

// parsePath splits a submitted leaf path into its value and its complete (flag, hash) elements, by
// the documented layout only (var-length value, then 33-byte elements; a shorter tail is not an element).
func parsePath(b []byte) (value []byte, flags []byte, elems []H, ok bool) {
	if len(b) == 0 {
		return nil, nil, nil, false
	}
	var n uint64
	hdr := 1
	switch b[0] {
	case 0xfd:
		hdr = 3
	case 0xfe:
		hdr = 5
	case 0xff:
		hdr = 9
	}
	if len(b) < hdr {
		return nil, nil, nil, false
	}
	switch hdr {
	case 1:
		n = uint64(b[0])
	case 3:
		n = uint64(binary.LittleEndian.Uint16(b[1:]))
	case 5:
		n = uint64(binary.LittleEndian.Uint32(b[1:]))
	default:
		n = binary.LittleEndian.Uint64(b[1:])
	}
	if n > uint64(len(b)-hdr) {
		return nil, nil, nil, false
	}
	value = b[hdr : hdr+int(n)]
	rest := b[hdr+int(n):]
	for len(rest) >= 33 {
		var h H
		copy(h[:], rest[1:33])
		flags = append(flags, rest[0])
		elems = append(elems, h)
		rest = rest[33:]
	}
	return value, flags, elems, true
}

// ---- encoding of the leaf-path proof consumed by merkle.MerkleProve (format from its doc comment:
// WriteVarBytes(value) then per level one position byte and one hash)

func varUint(n uint64) []byte {
	switch {
	case n < 0xfd:
		return []byte{byte(n)}
	case n <= 0xffff:
		b := []byte{0xfd, 0, 0}
		binary.LittleEndian.PutUint16(b[1:], uint16(n))
		return b
	case n <= 0xffffffff:
		b := []byte{0xfe, 0, 0, 0, 0}
		binary.LittleEndian.PutUint32(b[1:], uint32(n))
		return b
	}
	b := make([]byte, 9)
	b[0] = 0xff
	binary.LittleEndian.PutUint64(b[1:], n)
	return b
}

type pair struct {
	flag byte
	h    H
}

func encodePath(value []byte, ps []pair) []byte {
	out := append(varUint(uint64(len(value))), value...)
	for _, p := range ps {
		out = append(out, p.flag)
		out = append(out, p.h[:]...)
	}
	return out
}

func stepsToPairs(st []step) []pair {
	ps := make([]pair, len(st))
	for i, s := range st {
		if s.siblingIsLeft {
			ps[i] = pair{0, s.h}
		} else {
			ps[i] = pair{1, s.h}
		}
	}
	return ps
}

// ---------------------------------------------------------------------------------------------

type ctx struct {
	r      *kit.Run
	rng    *rand.Rand
	f      *forest
	v      *merkle.MerkleVerifier
	N      int
	seen   map[string]int
	ci, cn int
	known  []H // pool of known hashes (leaf hashes, interior nodes, roots) used as replacement material
}

func (c *ctx) violation(key, what string, replay interface{}) {
	c.seen[key]++
	c.r.Count("false_accepts["+key+"]", 1)
	if c.seen[key] <= 3 {
		c.r.Violation(key, what, replay)
	}
}

func toU(hs []H) []common.Uint256 {
	out := make([]common.Uint256, len(hs))
	for i, h := range hs {
		out[i] = common.Uint256(h)
	}
	return out
}

func hexs(hs []H) []string {
	out := make([]string, len(hs))
	for i, h := range hs {
		out[i] = kit.Hex(h[:])
	}
	return out
}

func (c *ctx) randHash() H {
	var h H
	c.rng.Read(h[:])
	return h
}

func (c *ctx) knownHash() H { return c.known[c.rng.Intn(len(c.known))] }

type listMut struct {
	name string
	p    []H
}

// mutateList: all single structural mutations of a hash list.
func (c *ctx) mutateList(p []H) []listMut {
	var out []listMut
	cp := func() []H { return append([]H{}, p...) }
	for j := range p {
		q := cp()
		q[j][c.rng.Intn(32)] ^= 1 << uint(c.rng.Intn(8))
		out = append(out, listMut{"flip-bit", q})
		q = append(cp()[:j], p[j+1:]...)
		out = append(out, listMut{"drop", q})
		q = append(append(cp()[:j+1], p[j]), p[j+1:]...)
		out = append(out, listMut{"duplicate", q})
		q = cp()
		q[j] = c.knownHash()
		out = append(out, listMut{"replace-known", q})
		if j+1 < len(p) {
			q = cp()
			q[j], q[j+1] = q[j+1], q[j]
			out = append(out, listMut{"swap-adjacent", q})
		}
	}
	if len(p) >= 3 {
		q := cp()
		q[0], q[len(q)-1] = q[len(q)-1], q[0]
		out = append(out, listMut{"swap-ends", q})
		q = cp()
		for a, b := 0, len(q)-1; a < b; a, b = a+1, b-1 {
			q[a], q[b] = q[b], q[a]
		}
		out = append(out, listMut{"reverse", q})
	}
	out = append(out, listMut{"append-random", append(cp(), c.randHash())})
	out = append(out, listMut{"append-known", append(cp(), c.knownHash())})
	out = append(out, listMut{"prepend-known", append([]H{c.knownHash()}, p...)})
	many := cp()
	for j, k := 0, 2+c.rng.Intn(7); j < k; j++ {
		if c.rng.Intn(2) == 0 {
			many = append(many, c.randHash())
		} else {
			many = append(many, c.knownHash())
		}
	}
	out = append(out, listMut{"append-many", many})
	if len(p) > 0 {
		out = append(out, listMut{"append-own-last", append(cp(), p[len(p)-1])})
		out = append(out, listMut{"empty", nil})
	}
	return out
}

// ---- inclusion (hash list form)

type inclClaim struct {
	lh   H
	i, n uint32
	root H
	p    []H
}

func (c *ctx) tryIncl(kind, mut string, cl inclClaim, honest bool) {
	r := c.r
	var err error
	if p := kit.Catch(func() {
		err = c.v.VerifyLeafHashInclusion(common.Uint256(cl.lh), cl.i, toU(cl.p), common.Uint256(cl.root), cl.n)
	}); p != nil {
		c.violation("verifier-panic:VerifyLeafHashInclusion", fmt.Sprintf("mut=%s i=%d n=%d panic=%v", mut, cl.i, cl.n, p), c.inclReplay(mut, cl))
		return
	}
	r.Eval(1)
	r.Distinct(kind, mut, cl.i, cl.n, len(cl.p), err == nil)
	truth := c.f.inclTrue(cl.lh, uint64(cl.i), uint64(cl.n), cl.root)
	if honest {
		if err != nil {
			c.violation("honest-inclusion-rejected", fmt.Sprintf("i=%d n=%d: %v", cl.i, cl.n, err), c.inclReplay(mut, cl))
		} else {
			r.Count("incl_honest_accepted", 1)
		}
		if !truth {
			r.Inconclusive("oracle self-check failed: honest inclusion claim judged false")
		}
		if ap, ok := c.f.auditPath(uint64(cl.i), uint64(cl.n), cl.root); !ok || !sameList(ap, cl.p) {
			r.Inconclusive("oracle self-check failed: honest inclusion proof is not the reference audit path")
		}
		return
	}
	surplus := strings.HasPrefix(mut, "proof:append") || strings.HasPrefix(mut, "proof:prepend")
	if err == nil {
		if truth {
			r.Count("incl_mutant_accepted_true", 1)
			// second oracle: the accepted proof must be exactly the audit path of that claim
			if ap, ok := c.f.auditPath(uint64(cl.i), uint64(cl.n), cl.root); ok && sameList(ap, cl.p) {
				r.Count("incl_accepted_proof_is_the_audit_path", 1)
			} else {
				c.violation("inclusion-proof-accepts-foreign-elements", fmt.Sprintf("mut=%s: VerifyLeafHashInclusion accepted a proof of %d hashes for leaf_hash=%x i=%d n=%d root=%x whose audit path has %d hashes / other hashes", mut, len(cl.p), cl.lh, cl.i, cl.n, cl.root, len(ap)), c.inclReplay(mut, cl))
			}
		} else {
			c.violation("inclusion-accepts-false-claim:"+mut, fmt.Sprintf("mut=%s leaf_hash=%x i=%d n=%d root=%x proof_len=%d", mut, cl.lh, cl.i, cl.n, cl.root, len(cl.p)), c.inclReplay(mut, cl))
		}
	} else {
		r.Count("incl_mutant_rejected", 1)
		if !truth {
			r.Count("incl_false_claims_rejected", 1)
		}
		if surplus && truth {
			r.Count("incl_true_claim_with_surplus_hashes_rejected", 1)
			if cl.n == 1 {
				r.Count("incl_one_leaf_tree_nonempty_proof_rejected", 1)
			}
		}
	}
}

func (c *ctx) inclReplay(mut string, cl inclClaim) interface{} {
	return map[string]interface{}{"api": "VerifyLeafHashInclusion", "mutation": mut, "leaf_hash": kit.Hex(cl.lh[:]), "index": cl.i, "tree_size": cl.n,
		"root": kit.Hex(cl.root[:]), "proof": hexs(cl.p), "reference_leaves": c.leavesHex()}
}

func (c *ctx) leavesHex() []string {
	out := make([]string, len(c.f.leaves))
	for i, l := range c.f.leaves {
		out[i] = kit.Hex(l)
	}
	return out
}

func (c *ctx) otherIndex(i, n int) uint32 {
	if n <= 1 {
		return uint32(i + 1)
	}
	j := c.rng.Intn(n - 1)
	if j >= i {
		j++
	}
	return uint32(j)
}

func (c *ctx) inclusion(i, n int) {
	f := c.f
	st := f.path(i, 0, n)
	proof := make([]H, len(st))
	for k, s := range st {
		proof[k] = s.h
	}
	base := inclClaim{f.lh[i], uint32(i), uint32(n), f.root(n), proof}
	c.tryIncl("incl", "honest", base, true)
	if i == 1 && n == 5 {
		c.r.Sample(map[string]interface{}{"kind": "honest inclusion", "i": i, "n": n, "leaf_hash": kit.Hex(base.lh[:]), "root": kit.Hex(base.root[:]), "proof": hexs(proof)})
	}
	for _, m := range c.mutateList(proof) {
		cl := base
		cl.p = m.p
		c.tryIncl("incl", "proof:"+m.name, cl, false)
	}
	type pm struct {
		name string
		f    func(cl *inclClaim)
	}
	params := []pm{
		{"index+1", func(cl *inclClaim) { cl.i++ }},
		{"index-1", func(cl *inclClaim) { cl.i-- }},
		{"index-other", func(cl *inclClaim) { cl.i = c.otherIndex(i, n) }},
		{"index=size", func(cl *inclClaim) { cl.i = cl.n }},
		{"index-xor-bit", func(cl *inclClaim) { cl.i ^= 1 << uint(c.rng.Intn(8)) }},
		{"size+1", func(cl *inclClaim) { cl.n++ }},
		{"size-1", func(cl *inclClaim) { cl.n-- }},
		{"size-random", func(cl *inclClaim) { cl.n = uint32(1 + c.rng.Intn(2*c.N)) }},
		{"size-double", func(cl *inclClaim) { cl.n *= 2 }},
		{"size-max", func(cl *inclClaim) { cl.n = 0xffffffff }},
		{"size-0", func(cl *inclClaim) { cl.n = 0 }},
		{"leaf-other", func(cl *inclClaim) { cl.lh = f.lh[c.otherIndex(i, n)%uint32(len(f.lh))] }},
		{"leaf-random", func(cl *inclClaim) { cl.lh = c.randHash() }},
		{"leaf-flip-bit", func(cl *inclClaim) { cl.lh[c.rng.Intn(32)] ^= 1 << uint(c.rng.Intn(8)) }},
		{"leaf-known-node", func(cl *inclClaim) { cl.lh = c.knownHash() }},
		{"leaf=root", func(cl *inclClaim) { cl.lh = cl.root }},
		{"root-flip-bit", func(cl *inclClaim) { cl.root[c.rng.Intn(32)] ^= 1 << uint(c.rng.Intn(8)) }},
		{"root-random", func(cl *inclClaim) { cl.root = c.randHash() }},
		{"root-of-size+1", func(cl *inclClaim) {
			if n+1 <= c.N {
				cl.root = f.root(n + 1)
			} else {
				cl.root = f.root(n - 1)
			}
		}},
		{"root-of-size-1", func(cl *inclClaim) { cl.root = f.root(n - 1) }},
		{"root-of-other-size", func(cl *inclClaim) { cl.root = f.root(1 + c.rng.Intn(c.N)) }},
		{"root=leaf", func(cl *inclClaim) { cl.root = cl.lh }},
		{"root-zero", func(cl *inclClaim) { cl.root = H{} }},
		{"root-known-node", func(cl *inclClaim) { cl.root = c.knownHash() }},
		// coherent shifts: claim about another (true) size but with this proof
		{"size+1,root-of-size+1", func(cl *inclClaim) {
			if n+1 <= c.N {
				cl.n++
				cl.root = f.root(n + 1)
			} else {
				cl.n--
				cl.root = f.root(n - 1)
			}
		}},
		{"index+1,leaf+1", func(cl *inclClaim) {
			if i+1 < n {
				cl.i++
				cl.lh = f.lh[i+1]
			} else {
				cl.i--
				cl.lh = f.lh[(i+n-1)%n]
			}
		}},
	}
	for _, p := range params {
		cl := base
		cl.p = append([]H{}, proof...)
		p.f(&cl)
		c.tryIncl("incl", p.name, cl, false)
	}
	// multiple mutations at once
	for k := 0; k < 6; k++ {
		cl := base
		ms := c.mutateList(proof)
		cl.p = ms[c.rng.Intn(len(ms))].p
		a := params[c.rng.Intn(len(params))]
		b := params[c.rng.Intn(len(params))]
		a.f(&cl)
		if k%2 == 0 {
			b.f(&cl)
		}
		c.tryIncl("incl", "multi", cl, false)
	}
	// ---- second preimage: an interior node on the path presented as a LEAF (byte-level APIs).
	// level h node above leaf i exists as a full subtree iff the first h proof steps are all inside it.
	cur := f.lh[i]
	for h := 1; h <= len(st); h++ {
		s := st[h-1]
		var l, rr H
		if s.siblingIsLeft {
			l, rr = s.h, cur
		} else {
			l, rr = cur, s.h
		}
		node := nodeHash(l, rr)
		// is the level-h node a complete 2^h subtree? (then the upper shape is (i>>h, ((n-1)>>h)+1))
		lo := (i >> uint(h)) << uint(h)
		if lo+(1<<uint(h)) <= n {
			idx := uint32(i >> uint(h))
			size := uint32(((n - 1) >> uint(h)) + 1)
			upper := proof[h:]
			// sanity: at hash level this is a true statement about node; must not be judged false by the oracle
			if c.f.inclTrue(node, uint64(idx), uint64(size), f.root(n)) {
				c.r.Count("interior_hash_level_claims_true", 1)
			}
			for vi, fake := range [][]byte{append(append([]byte{}, l[:]...), rr[:]...), append(append([]byte{0x01}, l[:]...), rr[:]...), node[:]} {
				name := []string{"second-preimage:left||right-as-leaf", "second-preimage:0x01||left||right-as-leaf", "second-preimage:nodehash-as-leaf-data"}[vi]
				var err error
				if p := kit.Catch(func() { err = c.v.VerifyLeafInclusion(fake, idx, toU(upper), common.Uint256(f.root(n)), size) }); p != nil {
					c.violation("verifier-panic:VerifyLeafInclusion", fmt.Sprint(p), nil)
					continue
				}
				c.r.Eval(1)
				c.r.Distinct("2pre", vi, i, n, h, err == nil)
				truth := c.f.inclTrue(leafHash(fake), uint64(idx), uint64(size), f.root(n))
				if err == nil && !truth {
					c.violation("interior-node-accepted-as-leaf:VerifyLeafInclusion", fmt.Sprintf("%s i=%d n=%d level=%d", name, i, n, h),
						map[string]interface{}{"api": "VerifyLeafInclusion", "leaf": kit.Hex(fake), "index": idx, "tree_size": size, "root": kit.Hex(func() []byte { x := f.root(n); return x[:] }()), "proof": hexs(upper), "reference_leaves": c.leavesHex()})
				} else if err != nil {
					c.r.Count("second_preimage_rejected", 1)
				}
				// same attempt through MerkleProve
				ps := stepsToPairs(st[h:])
				pathb := encodePath(fake, ps)
				rt := f.root(n)
				var val []byte
				if p := kit.Catch(func() { val, err = merkle.MerkleProve(pathb, rt[:]) }); p != nil {
					c.violation("verifier-panic:MerkleProve", fmt.Sprint(p), kit.Hex(pathb))
					continue
				}
				c.r.Eval(1)
				if err == nil && !c.f.pathTrue(val, rt[:]) {
					c.violation("interior-node-accepted-as-leaf:MerkleProve", fmt.Sprintf("%s i=%d n=%d level=%d", name, i, n, h),
						map[string]interface{}{"api": "MerkleProve", "path": kit.Hex(pathb), "root": kit.Hex(rt[:]), "reference_leaves": c.leavesHex()})
				} else if err != nil {
					c.r.Count("second_preimage_rejected", 1)
				}
			}
		}
		cur = node
	}
}

// leafAsInterior: leaf s of D has data a||b (or 0x01||a||b) where a, b are hashes of known values;
// try to pass that LEAF off as the interior node with children a and b.
func (c *ctx) leafAsInterior(s int, a, b H, aValue []byte) {
	f := c.f
	for n := s + 1; n <= c.N; n += 1 + (c.N-s)/12 {
		st := f.path(s, 0, n)
		proof := []H{b}
		for _, x := range st {
			proof = append(proof, x.h)
		}
		rt := f.root(n)
		for _, shape := range [][2]uint32{{uint32(2 * s), uint32(2 * n)}, {uint32(2 * s), uint32(2*n - 1)}, {uint32(2 * s), uint32(2*s + 2)}} {
			cl := inclClaim{a, shape[0], shape[1], rt, proof}
			c.tryIncl("leaf-as-node", "leaf-as-interior-node", cl, false)
			c.r.Count("leaf_as_interior_attempts", 1)
		}
		ps := append([]pair{{1, b}}, stepsToPairs(st)...)
		pathb := encodePath(aValue, ps)
		var val []byte
		var err error
		if p := kit.Catch(func() { val, err = merkle.MerkleProve(pathb, rt[:]) }); p != nil {
			c.violation("verifier-panic:MerkleProve", fmt.Sprint(p), kit.Hex(pathb))
			continue
		}
		c.r.Eval(1)
		c.r.Count("leaf_as_interior_attempts", 1)
		if err == nil && !f.pathTrue(val, rt[:]) {
			c.violation("leaf-accepted-as-interior-node:MerkleProve", fmt.Sprintf("s=%d n=%d", s, n),
				map[string]interface{}{"api": "MerkleProve", "path": kit.Hex(pathb), "root": kit.Hex(rt[:]), "reference_leaves": c.leavesHex()})
		} else if err != nil {
			c.r.Count("leaf_as_interior_rejected", 1)
		}
	}
}

// ---- leaf-path form (MerkleProve)

func (c *ctx) tryPath(mut string, pathb []byte, root []byte, honestValue []byte) {
	r := c.r
	var val []byte
	var err error
	if p := kit.Catch(func() { val, err = merkle.MerkleProve(append([]byte{}, pathb...), append([]byte{}, root...)) }); p != nil {
		c.violation("verifier-panic:MerkleProve", fmt.Sprintf("mut=%s panic=%v", mut, p), map[string]interface{}{"path": kit.Hex(pathb), "root": kit.Hex(root)})
		return
	}
	r.Eval(1)
	r.Distinct("path", mut, c.ci, c.cn, len(pathb), len(root), err == nil)
	if honestValue != nil {
		if err != nil || !bytes.Equal(val, honestValue) {
			c.violation("honest-leafpath-rejected", fmt.Sprintf("err=%v", err), map[string]interface{}{"path": kit.Hex(pathb), "root": kit.Hex(root)})
		} else {
			r.Count("path_honest_accepted", 1)
		}
		if !c.f.pathTrue(honestValue, root) {
			r.Inconclusive("oracle self-check failed: honest path claim judged false")
		}
		if _, _, elems, ok := parsePath(pathb); !ok || len(root) != 32 || !c.f.siblingsMatch(toH(root), leafHash(honestValue), elems) {
			r.Inconclusive("oracle self-check failed: honest path elements judged not to be the sibling sequence")
		}
		return
	}
	if err == nil {
		if c.f.pathTrue(val, root) {
			r.Count("path_mutant_accepted_true", 1)
			r.Count("path_malleable["+mut+"]", 1)
			// second oracle: the accepted path must consist of exactly the sibling hashes between that leaf
			// and that root (flag bytes are not compared)
			pv, flags, elems, ok := parsePath(pathb)
			if ok && bytes.Equal(pv, val) && len(root) == 32 {
				if c.f.siblingsMatch(toH(root), leafHash(val), elems) {
					r.Count("path_accepted_elements_are_the_sibling_sequence", 1)
					for _, fl := range flags {
						if fl >= 2 {
							r.Count("path_accepted_with_flag_ge_2_on_a_real_right_sibling", 1)
							break
						}
					}
				} else {
					c.violation("path-proof-accepts-foreign-elements", fmt.Sprintf("mut=%s: MerkleProve accepted a path of %d elements (flags %x) for value %x and root %x, but these elements are not the sibling hashes between that leaf and that root", mut, len(elems), flags, val, root),
						map[string]interface{}{"api": "MerkleProve", "mutation": mut, "path": kit.Hex(pathb), "root": kit.Hex(root), "reference_leaves": c.leavesHex()})
				}
			} else {
				r.Count("path_accepted_not_parsed_by_checker", 1)
			}
		} else {
			c.violation("pathproof-accepts-false-claim:"+mut, fmt.Sprintf("mut=%s returned value %x root=%x", mut, val, root),
				map[string]interface{}{"api": "MerkleProve", "mutation": mut, "path": kit.Hex(pathb), "root": kit.Hex(root), "reference_leaves": c.leavesHex()})
		}
	} else {
		r.Count("path_mutant_rejected", 1)
	}
}

func toH(b []byte) H {
	var h H
	copy(h[:], b)
	return h
}

func (c *ctx) pathProof(i, n int) {
	f := c.f
	st := f.path(i, 0, n)
	ps := stepsToPairs(st)
	value := f.leaves[i]
	rt := f.root(n)
	honest := encodePath(value, ps)
	c.ci, c.cn = i, n
	c.tryPath("honest", honest, rt[:], value)
	if i == 1 && n == 5 {
		c.r.Sample(map[string]interface{}{"kind": "honest leaf path", "i": i, "n": n, "path": kit.Hex(honest), "root": kit.Hex(rt[:])})
	}
	cp := func() []pair { return append([]pair{}, ps...) }
	for j := range ps {
		q := cp()
		q[j].h[c.rng.Intn(32)] ^= 1 << uint(c.rng.Intn(8))
		c.tryPath("hash-flip-bit", encodePath(value, q), rt[:], nil)
		q = cp()
		q[j].flag ^= 1
		c.tryPath("flag-toggle", encodePath(value, q), rt[:], nil)
		q = cp()
		q[j].flag = byte(2 + c.rng.Intn(254))
		c.tryPath("flag-other-value", encodePath(value, q), rt[:], nil)
		q = append(cp()[:j], ps[j+1:]...)
		c.tryPath("drop-pair", encodePath(value, q), rt[:], nil)
		q = append(append(cp()[:j+1], ps[j]), ps[j+1:]...)
		c.tryPath("duplicate-pair", encodePath(value, q), rt[:], nil)
		if j+1 < len(ps) {
			q = cp()
			q[j], q[j+1] = q[j+1], q[j]
			c.tryPath("swap-pairs", encodePath(value, q), rt[:], nil)
			q = cp()
			q[j].flag, q[j+1].flag = q[j+1].flag, q[j].flag
			c.tryPath("swap-flags", encodePath(value, q), rt[:], nil)
		}
		q = cp()
		q[j].h = c.knownHash()
		c.tryPath("replace-known", encodePath(value, q), rt[:], nil)
	}
	// elements carrying a flag byte that is neither LEFT(0) nor RIGHT(1), inserted at random positions
	for rep := 0; rep < 3; rep++ {
		q := cp()
		k := 1 + c.rng.Intn(40)
		if rep == 0 {
			k = 1
		}
		for j := 0; j < k; j++ {
			var h H
			switch c.rng.Intn(3) {
			case 0:
				h = c.randHash()
			case 1:
				h = c.knownHash()
			default:
				if len(ps) > 0 {
					h = ps[c.rng.Intn(len(ps))].h // duplicate of a real element
				} else {
					h = c.f.lh[i]
				}
			}
			fl := []byte{2, 3, 0x7f, 0xff}[c.rng.Intn(4)]
			pos := c.rng.Intn(len(q) + 1)
			q = append(q, pair{})
			copy(q[pos+1:], q[pos:])
			q[pos] = pair{fl, h}
		}
		before := c.r.Get("path_mutant_rejected")
		c.tryPath("insert-elements-with-flag>=2", encodePath(value, q), rt[:], nil)
		c.r.Count("path_inserted_high_flag_elements_rejected", int(c.r.Get("path_mutant_rejected")-before))
	}
	c.tryPath("append-pair-random", encodePath(value, append(cp(), pair{byte(c.rng.Intn(2)), c.randHash()})), rt[:], nil)
	c.tryPath("append-pair-known", encodePath(value, append(cp(), pair{byte(c.rng.Intn(2)), c.knownHash()})), rt[:], nil)
	c.tryPath("prepend-pair-known", encodePath(value, append([]pair{{byte(c.rng.Intn(2)), c.knownHash()}}, ps...)), rt[:], nil)
	// trailing bytes shorter than one (flag,hash) pair; truncations
	tb := make([]byte, 1+c.rng.Intn(32))
	c.rng.Read(tb)
	c.tryPath("trailing-short-bytes", append(append([]byte{}, honest...), tb...), rt[:], nil)
	if len(ps) > 0 {
		c.tryPath("truncate-bytes", honest[:len(honest)-1-c.rng.Intn(32)], rt[:], nil)
		c.tryPath("truncate-one-pair", honest[:len(honest)-33], rt[:], nil)
	}
	// value changes
	v2 := append([]byte{}, value...)
	if len(v2) > 0 {
		v2[c.rng.Intn(len(v2))] ^= 1 << uint(c.rng.Intn(8))
		c.tryPath("value-flip-bit", encodePath(v2, ps), rt[:], nil)
		c.tryPath("value-truncated", encodePath(value[:len(value)-1], ps), rt[:], nil)
	}
	c.tryPath("value-extended", encodePath(append(append([]byte{}, value...), 0), ps), rt[:], nil)
	c.tryPath("value-other-leaf", encodePath(f.leaves[c.otherIndex(i, n)%uint32(len(f.leaves))], ps), rt[:], nil)
	c.tryPath("value-empty", encodePath(nil, ps), rt[:], nil)
	// length prefix games: value length moved by one byte into / out of the first pair
	if len(value) > 0 && len(value) < 0xfc {
		raw := append([]byte{}, honest...)
		raw[0]++
		c.tryPath("varlen+1", raw, rt[:], nil)
		raw = append([]byte{}, honest...)
		raw[0]--
		c.tryPath("varlen-1", raw, rt[:], nil)
	}
	// roots
	r2 := rt
	r2[c.rng.Intn(32)] ^= 1 << uint(c.rng.Intn(8))
	c.tryPath("root-flip-bit", honest, r2[:], nil)
	c.tryPath("root-short", honest, rt[:31], nil)
	c.tryPath("root-long", honest, append(append([]byte{}, rt[:]...), 0), nil)
	c.tryPath("root-empty", honest, nil, nil)
	o := f.root(1 + c.rng.Intn(c.N))
	c.tryPath("root-of-other-size", honest, o[:], nil)
	if n > 1 {
		o = f.root(n - 1)
		c.tryPath("root-of-size-1", honest, o[:], nil)
	}
	k := c.knownHash()
	c.tryPath("root-known-node", honest, k[:], nil)
}

// ---- consistency

type consClaim struct {
	m, n   uint32
	r1, r2 H
	p      []H
}

func (c *ctx) tryCons(mut string, cl consClaim, honest bool) {
	r := c.r
	var err error
	if p := kit.Catch(func() {
		err = c.v.VerifyConsistency(cl.m, cl.n, common.Uint256(cl.r1), common.Uint256(cl.r2), toU(cl.p))
	}); p != nil {
		c.violation("verifier-panic:VerifyConsistency", fmt.Sprintf("mut=%s m=%d n=%d panic=%v", mut, cl.m, cl.n, p), c.consReplay(mut, cl))
		return
	}
	r.Eval(1)
	r.Distinct("cons", mut, cl.m, cl.n, len(cl.p), err == nil)
	truth := c.f.consTrue(uint64(cl.m), uint64(cl.n), cl.r1, cl.r2)
	if honest {
		if err != nil {
			c.violation("honest-consistency-rejected", fmt.Sprintf("m=%d n=%d: %v", cl.m, cl.n, err), c.consReplay(mut, cl))
		} else {
			r.Count("cons_honest_accepted", 1)
		}
		if !truth {
			r.Inconclusive("oracle self-check failed: honest consistency claim judged false")
		}
		return
	}
	if err == nil {
		if truth {
			r.Count("cons_mutant_accepted_true", 1)
			if cl.m == 0 {
				r.Count("cons_old_size_0_accepted", 1)
			}
		} else if cl.m < cl.n && cl.r1 == cl.r2 {
			c.violation("consistency-accepts-equal-roots-different-sizes",
				fmt.Sprintf("VerifyConsistency(old_size=%d, new_size=%d, old_root=new_root=%x, proof of %d hashes) returned nil although a %d-leaf tree and a %d-leaf tree cannot share a root (mutation %s)", cl.m, cl.n, cl.r1, len(cl.p), cl.m, cl.n, mut),
				c.consReplay(mut, cl))
		} else {
			c.violation("consistency-accepts-false-claim:"+mut, fmt.Sprintf("mut=%s m=%d n=%d r1=%x r2=%x proof_len=%d", mut, cl.m, cl.n, cl.r1, cl.r2, len(cl.p)), c.consReplay(mut, cl))
		}
	} else {
		r.Count("cons_mutant_rejected", 1)
		if !truth {
			r.Count("cons_false_claims_rejected", 1)
		}
	}
}

func (c *ctx) consReplay(mut string, cl consClaim) interface{} {
	return map[string]interface{}{"api": "VerifyConsistency", "mutation": mut, "old_size": cl.m, "new_size": cl.n, "old_root": kit.Hex(cl.r1[:]),
		"new_root": kit.Hex(cl.r2[:]), "proof": hexs(cl.p), "reference_leaves": c.leavesHex()}
}

func (c *ctx) consistency(m, n int) {
	f := c.f
	proof := f.subproof(m, 0, n, true)
	base := consClaim{uint32(m), uint32(n), f.root(m), f.root(n), proof}
	c.tryCons("honest", base, true)
	if m == 3 && n == 7 {
		c.r.Sample(map[string]interface{}{"kind": "honest consistency", "m": m, "n": n, "old_root": kit.Hex(base.r1[:]), "new_root": kit.Hex(base.r2[:]), "proof": hexs(proof)})
	}
	for _, mu := range c.mutateList(proof) {
		cl := base
		cl.p = mu.p
		c.tryCons("proof:"+mu.name, cl, false)
	}
	type pm struct {
		name string
		f    func(cl *consClaim)
	}
	params := []pm{
		{"old_size+1", func(cl *consClaim) { cl.m++ }},
		{"old_size-1", func(cl *consClaim) { cl.m-- }},
		{"old_size-random", func(cl *consClaim) { cl.m = uint32(1 + c.rng.Intn(n)) }},
		{"old_size-0", func(cl *consClaim) { cl.m = 0 }},
		{"new_size+1", func(cl *consClaim) { cl.n++ }},
		{"new_size-1", func(cl *consClaim) { cl.n-- }},
		{"new_size-random", func(cl *consClaim) { cl.n = uint32(m + c.rng.Intn(c.N)) }},
		{"new_size-max", func(cl *consClaim) { cl.n = 0xffffffff }},
		{"sizes-swapped", func(cl *consClaim) { cl.m, cl.n = cl.n, cl.m }},
		{"old_root-flip-bit", func(cl *consClaim) { cl.r1[c.rng.Intn(32)] ^= 1 << uint(c.rng.Intn(8)) }},
		{"old_root-random", func(cl *consClaim) { cl.r1 = c.randHash() }},
		{"old_root-of-size+1", func(cl *consClaim) { cl.r1 = f.root(m%c.N + 1) }},
		{"old_root-of-size-1", func(cl *consClaim) { cl.r1 = f.root(m - 1) }},
		{"old_root-of-other-size", func(cl *consClaim) { cl.r1 = f.root(1 + c.rng.Intn(c.N)) }},
		{"old_root=new_root", func(cl *consClaim) { cl.r1 = cl.r2 }},
		{"old_root-known-node", func(cl *consClaim) { cl.r1 = c.knownHash() }},
		{"new_root-flip-bit", func(cl *consClaim) { cl.r2[c.rng.Intn(32)] ^= 1 << uint(c.rng.Intn(8)) }},
		{"new_root-random", func(cl *consClaim) { cl.r2 = c.randHash() }},
		{"new_root-of-size+1", func(cl *consClaim) { cl.r2 = f.root(n%c.N + 1) }},
		{"new_root-of-size-1", func(cl *consClaim) { cl.r2 = f.root(n - 1) }},
		{"new_root-of-other-size", func(cl *consClaim) { cl.r2 = f.root(1 + c.rng.Intn(c.N)) }},
		{"new_root=old_root", func(cl *consClaim) { cl.r2 = cl.r1 }},
		{"roots-swapped", func(cl *consClaim) { cl.r1, cl.r2 = cl.r2, cl.r1 }},
		{"both-roots-random-equal", func(cl *consClaim) { cl.r1 = c.randHash(); cl.r2 = cl.r1 }},
		{"new_size+1,new_root-of-size+1", func(cl *consClaim) {
			if n+1 <= c.N {
				cl.n++
				cl.r2 = f.root(n + 1)
			}
		}},
		{"old_size+1,old_root-of-size+1", func(cl *consClaim) {
			if m+1 <= n {
				cl.m++
				cl.r1 = f.root(m + 1)
			}
		}},
	}
	for _, p := range params {
		cl := base
		cl.p = append([]H{}, proof...)
		p.f(&cl)
		if cl.m == base.m && cl.n == base.n && cl.r1 == base.r1 && cl.r2 == base.r2 {
			continue // the mutation was a no-op at this grid border
		}
		c.tryCons(p.name, cl, false)
	}
	for k := 0; k < 6; k++ {
		cl := base
		ms := c.mutateList(proof)
		cl.p = ms[c.rng.Intn(len(ms))].p
		a := params[c.rng.Intn(len(params))]
		b := params[c.rng.Intn(len(params))]
		a.f(&cl)
		if k%2 == 0 {
			b.f(&cl)
		}
		c.tryCons("multi", cl, false)
	}
}

func TestC07(t *testing.T) {
	r := kit.Start(t, "C07", "exploration")
	defer r.Finish()
	r.Rule("reference forest of N leaves (random 32-byte leaves, duplicates, empty and long values, leaves whose data is left||right / 0x01||left||right of real hashes); honest RFC 6962 audit paths, leaf-path proofs and consistency proofs generated by the checker for the FULL (i,n) and (m,n) grids; each honest proof is verified, then every single mutation (per element: bit flip, drop, duplicate, replace by a known node, swap; append/prepend/empty/reverse; flag toggle / other flag values; index, size, leaf, root replaced by neighbours, other sizes' values, random, zero; trailing / truncated bytes; length-prefix shifts), 6 random multi-mutations, second-preimage attempts (interior node as leaf at every complete level, leaf as interior node) is verified with the node's verifier and every ACCEPTED claim is judged true/false in the reference hash DAG; distinct = (api, mutation, indices, proof length, verdict)")
	r.Assume("SHA-256 (Go standard library) is collision resistant: the reference forest holds the only known preimages, so the truth of a claim is its truth in that hash DAG")
	r.Assume("hash-level inclusion claim (h,i,n,R) means: the node reached from R by the RFC 6962 turn sequence of (i,n) is h — an inclusion proof cannot bind more than that (e.g. leaf 0 of 3 is also accepted as leaf 0 of 4 by any RFC 6962 verifier), so such acceptances are not violations")
	r.Assume("inclusion proofs (VerifyLeafHashInclusion) are additionally required to be exactly the audit path of the accepted claim (the sibling hashes met from the root along the turn sequence of (i,n)): surplus or foreign hashes that the verifier does not bind to the root do not correspond to the claim. Not applied to VerifyConsistency, whose documented shortcuts (old_size == 0, identical trees) ignore the proof")
	r.Assume("path proofs (MerkleProve) are additionally required to consist of exactly the sibling hashes between the accepted leaf and the given root (sides / flag bytes not compared): a verifier that binds every submitted element to the root cannot accept anything else, and a path padded with unbound elements does not correspond to the claimed leaf and root")
	r.Assume("consistency with old_size == 0 is vacuously true whatever the roots (DESIGN §8); MerkleProve reading flag bytes != 0 as RIGHT and ignoring < 33 trailing bytes is malleability, not unsoundness, when the accepted claim is true")
	N := r.N(64, 320)
	c := &ctx{r: r, rng: r.Rand("c07"), f: newForest(), v: merkle.NewMerkleVerifier(), N: N, seen: map[string]int{}}
	rng := c.rng
	// leaves
	type lai struct {
		s      int
		a, b   H
		aValue []byte
	}
	var lais []lai
	for i := 0; i < N; i++ {
		var d []byte
		switch {
		case i == 9 || i == 20:
			d = append([]byte{}, c.f.leaves[i-1]...) // adjacent duplicate
		case i == 33 && N > 33:
			d = append([]byte{}, c.f.leaves[2]...) // distant duplicate
		case i == 6:
			d = []byte{} // empty value
		case i == 11:
			d = make([]byte, 300) // value longer than 0xfc: 3-byte length prefix
			rng.Read(d)
		case i == 13 || i == 28:
			a, b := c.f.lh[3], c.f.lh[4]
			d = append(append([]byte{}, a[:]...), b[:]...)
			lais = append(lais, lai{i, a, b, c.f.leaves[3]})
		case i == 14 || i == 29:
			a, b := c.f.lh[4], c.f.lh[5]
			d = append(append([]byte{0x01}, a[:]...), b[:]...)
			lais = append(lais, lai{i, a, b, c.f.leaves[4]})
		default:
			d = make([]byte, 32)
			rng.Read(d)
		}
		c.f.add(d)
	}
	for n := 0; n <= N; n++ {
		c.f.root(n)
	}
	for _, h := range c.f.lh {
		c.known = append(c.known, h)
	}
	for h := range c.f.children {
		c.known = append(c.known, h)
	}
	// deterministic order of the pool (map iteration is random)
	sortHashes(c.known)
	r.Set("forest", map[string]int{"leaves": N, "interior_nodes": len(c.f.children)})

	for n := 1; n <= N; n++ {
		for i := 0; i < n; i++ {
			c.inclusion(i, n)
			c.pathProof(i, n)
		}
		for m := 1; m <= n; m++ {
			c.consistency(m, n)
		}
	}
	for _, l := range lais {
		c.leafAsInterior(l.s, l.a, l.b, l.aValue)
	}
	pairs := N * (N + 1) / 2
	if r.Violations() > 0 {
		return // vacuity guards only add noise to a run that already failed
	}
	r.Require("incl_honest_accepted", pairs)
	r.Require("path_honest_accepted", pairs)
	r.Require("cons_honest_accepted", pairs)
	r.Require("incl_mutant_rejected", pairs*10)
	r.Require("incl_true_claim_with_surplus_hashes_rejected", pairs*3)
	r.Require("incl_one_leaf_tree_nonempty_proof_rejected", 3)
	r.Require("incl_accepted_proof_is_the_audit_path", pairs/4)
	r.Require("incl_false_claims_rejected", pairs*10)
	r.Require("path_mutant_rejected", pairs*10)
	r.Require("path_inserted_high_flag_elements_rejected", pairs*2)
	r.Require("path_accepted_elements_are_the_sibling_sequence", pairs)
	r.Require("path_accepted_with_flag_ge_2_on_a_real_right_sibling", pairs/2)
	r.Require("cons_mutant_rejected", pairs*10)
	r.Require("cons_false_claims_rejected", pairs*10)
	r.Require("second_preimage_rejected", pairs)
	r.Require("leaf_as_interior_rejected", 4)
	r.Require("interior_hash_level_claims_true", pairs/2)
}

func sortHashes(hs []H) {
	sort.Slice(hs, func(i, j int) bool { return bytes.Compare(hs[i][:], hs[j][:]) < 0 })
}
