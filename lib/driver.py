#!/usr/bin/env python3
"""Driver of every /verif check (see DESIGN.md §1).

  ./check <ID> [--tier quick|thorough] [--replay <file>] [--keep]
  ./check --setup            warm the build cache for all registered checks
  ./check --list

Exit codes: 0 held (possibly with KNOWN-FINDING lines), 1 violation (VIOLATION line printed),
2 inconclusive / build failure (never reported as a violation).
"""
import json, os, re, shutil, subprocess, sys, time, hashlib

VERIF = os.path.dirname(os.path.dirname(os.path.abspath(__file__)))
H = os.path.join(VERIF, "harness")
REPO = os.environ.get("VERIF_REPO", "/repo")


def goenv():
    e = dict(os.environ)
    e.update(GOFLAGS="-mod=mod", GOPROXY="off", GOSUMDB="off", GOTOOLCHAIN="local", CGO_ENABLED="1")
    e["VERIF_DIR"] = VERIF
    e.setdefault("VERIF_SEED", "1")
    return e


def registry():
    """checks.d/<ID>.json = the spec of one check; not_applicable.json = {id: reason}."""
    reg = {"checks": {}, "not_applicable": {}}
    d = os.path.join(VERIF, "checks.d")
    for f in sorted(os.listdir(d)):
        if f.endswith(".json"):
            reg["checks"][f[:-5]] = json.load(open(os.path.join(d, f)))
    na = os.path.join(VERIF, "not_applicable.json")
    if os.path.exists(na):
        reg["not_applicable"] = json.load(open(na))
    return reg


def gen_gomod(outdir=None):
    """Per-run modfile (so concurrent runs against different VERIF_REPO trees do not interfere);
    harness/go.mod itself always points at /repo and only exists so the directory is a module."""
    if not os.path.exists(os.path.join(H, "go.mod")):
        e = dict(os.environ); e["VERIF_REPO"] = "/repo"
        subprocess.check_call([sys.executable, os.path.join(VERIF, "lib", "gen_gomod.py")], env=e)
    if outdir:
        subprocess.check_call([sys.executable, os.path.join(VERIF, "lib", "gen_gomod.py"), outdir])
        return os.path.join(outdir, "go.mod")
    return os.path.join(H, "go.mod")


def overlay_args(tmp):
    """std-lib overlay (clock / randomness monitor); generated on demand."""
    ov = os.path.join(VERIF, "harness", "stdoverlay", "gen.py")
    out = os.path.join(VERIF, ".cache", "stdoverlay")
    subprocess.check_call([sys.executable, ov, out])
    return ["-overlay", os.path.join(out, "overlay.json")]


def build(pkg, out, race, overlay, tmp, log, tags="verif"):
    cmd = ["go", "test", "-modfile=" + os.path.join(tmp, "go.mod"), "-tags", tags, "-vet=off", "-c", "-o", out]
    if race:
        cmd.append("-race")
    if overlay:
        cmd += overlay_args(tmp)
    cmd.append("./" + pkg)
    with open(log, "ab") as lf:
        lf.write(("$ " + " ".join(cmd) + "\n").encode())
        lf.flush()
        p = subprocess.run(cmd, cwd=H, env=goenv(), stdout=lf, stderr=subprocess.STDOUT)
    return p.returncode == 0


RACE_RE = re.compile(r"WARNING: DATA RACE\n(.*?)\n==================", re.S)


def dedupe_races(text):
    """One entry per distinct race: key = data-race:<poly function A>|<poly function B> (the innermost
    polynetwork/poly frame of each of the two conflicting accesses, sorted; no line numbers)."""
    seen = {}
    for m in RACE_RE.finditer(text):
        body = m.group(1)
        tops = []
        for stack in re.split(r"\n\n", body):
            if not re.match(r"\s*(Read|Write|Previous read|Previous write|Atomic|Previous atomic)", stack.strip() or "x"):
                continue
            top = None
            for l in stack.splitlines():
                l = l.strip()
                if l.startswith("github.com/polynetwork/poly/") and l.endswith(")"):
                    top = re.sub(r"\(\)$", "", l).replace("github.com/polynetwork/poly/", "")
                    break
            tops.append(top or "non-poly")
        key = "data-race:" + "|".join(sorted(set(tops)))
        seen.setdefault(key, body)
    return seen


def known_keys(pid):
    try:
        d = json.load(open(os.path.join(VERIF, "known_findings.json")))
    except Exception:
        return {}
    return {x["key"]: x["what"] for x in d if x.get("property") == pid and x.get("kind") == "known"}


def validate_evidence(path, pid, tier, level):
    try:
        ev = json.load(open(path))
    except Exception as e:
        return "evidence file unreadable: %s" % e
    for k in ("property_id", "tier", "seed", "level", "coverage", "wall_s"):
        if k not in ev:
            return "evidence lacks %s" % k
    if ev["property_id"] != pid or ev["tier"] != tier or ev["level"] != level:
        return "evidence header mismatch"
    c = ev["coverage"]
    if not (isinstance(c.get("evaluations"), int) and c["evaluations"] >= 1):
        return "evaluations < 1"
    if not (isinstance(c.get("distinct_nontrivial"), int) and c["distinct_nontrivial"] >= 2):
        return "distinct_nontrivial < 2"
    if not isinstance(c.get("rule"), str) or not c["rule"].strip():
        return "rule missing"
    if not isinstance(c.get("samples"), list) or len(c["samples"]) < 1:
        return "no samples"
    p = subprocess.run([sys.executable, os.path.join(VERIF, "lib", "validate.py"), "/root/.vp/EVIDENCE.schema.json", path],
                       stdout=subprocess.PIPE, stderr=subprocess.STDOUT)
    if p.returncode != 0:
        return "schema: %s" % p.stdout.decode()[:300]
    return None


def run_check(pid, tier, replay=None, keep=False):
    reg = registry()
    if pid not in reg["checks"]:
        print("unknown check %s" % pid)
        return 2
    spec = reg["checks"][pid]
    t0 = time.time()
    tmp = "/var/tmp/verif-run-%s-%d" % (pid, os.getpid())
    shutil.rmtree(tmp, ignore_errors=True)
    os.makedirs(tmp + "/ev")
    gen_gomod(tmp)
    os.makedirs(tmp + "/cwd")
    # runs against another tree (VERIF_REPO, used for seeded changes) keep their logs and evidence
    # apart so that they never overwrite what the registered checks wrote for /repo
    alt = "" if os.path.realpath(REPO) == "/repo" else "-alt"
    logdir = os.path.join(VERIF, "logs" + alt)
    os.makedirs(logdir, exist_ok=True)
    os.makedirs(os.path.join(VERIF, "evidence" + alt), exist_ok=True)
    os.makedirs(os.path.join(VERIF, "replays"), exist_ok=True)
    evfile = os.path.join(VERIF, "evidence" + alt, pid + ".json")
    if os.path.exists(evfile):
        os.remove(evfile)
    rc = 0
    out_lines = []
    try:
        phases = spec.get("phases") or [{}]
        merged = None
        logs_to_copy = []
        for i, ph in enumerate(phases):
            if ph.get("tier") and ph["tier"] != tier:
                continue
            name = ph.get("name", "main" if i == 0 else "phase%d" % i)
            pkg = ph.get("pkg", spec["pkg"])
            race = ph.get("race", False)
            overlay = ph.get("overlay", False)
            final_log = os.path.join(logdir, "%s-%s-%s.log" % (pid, tier, name))
            log = os.path.join(tmp, "%s.log" % name)  # private to this run; copied to final_log below
            open(log, "w").close()
            logs_to_copy.append((log, final_log))
            binp = os.path.join(tmp, "%s-%s.test" % (pid, name))
            if not build(pkg, binp, race, overlay, tmp, log):
                sys.stdout.write(open(log).read()[-6000:])
                print("BUILD-FAILED property=%s phase=%s log=%s" % (pid, name, final_log))
                print("INCONCLUSIVE property=%s why=build failed" % pid)
                return 2
            env = goenv()
            env.update(VERIF_TIER=tier, VERIF_EVIDENCE_DIR=tmp + "/ev", VERIF_TMP=tmp, TMPDIR=tmp,
                       VERIF_LASTCASE=tmp + "/lastcase", VERIF_PHASE=name, VERIF_SELF=binp)
            if replay:
                env["VERIF_REPLAY"] = os.path.abspath(replay)
            if race:
                env["GORACE"] = "halt_on_error=0 history_size=4"
            for k, v in (ph.get("env") or spec.get("env") or {}).items():
                env[k] = str(v)
            tmo = ph.get("timeout", spec.get("timeout", {})).get(tier, 1800 if tier == "quick" else 14400)
            run_re = ph.get("run", spec.get("run", "."))
            cmd = ["timeout", "-s", "QUIT", "-k", "30", str(tmo), binp, "-test.run", run_re, "-test.v",
                   "-test.timeout", "0", "-test.count", "1"]
            if ph.get("parallel"):
                cmd += ["-test.parallel", str(ph["parallel"])]
            with open(log, "ab") as lf:
                lf.write(("$ " + " ".join(cmd) + "\n").encode())
                lf.flush()
                p = subprocess.run(cmd, cwd=tmp + "/cwd", env=env, stdout=lf, stderr=subprocess.STDOUT)
            text = open(log, errors="replace").read()
            vio = [l for l in text.splitlines() if l.startswith("VIOLATION property=")]
            for l in text.splitlines():
                if l.startswith(("KNOWN-FINDING:", "SUMMARY ", "  observed ", "NOTE:", "INCONCLUSIVE ")) or l.startswith("  key="):
                    out_lines.append(l)
            out_lines += vio
            if vio:
                rc = 1
            races = dedupe_races(text) if race else {}
            if races:
                rp = os.path.join(VERIF, "replays", "%s-%s-races-%s.txt" % (pid, tier, name))
                with open(rp, "w") as f:
                    for k, body in races.items():
                        f.write("== %s ==\n%s\n\n" % (k, body))
                kn = known_keys(pid)
                for k in sorted(races):
                    if k in kn:
                        out_lines.append("KNOWN-FINDING: property=%s %s [key=%s]" % (pid, kn[k], k))
                    else:
                        out_lines.append("VIOLATION property=%s replay=%s" % (pid, rp))
                        out_lines.append("  key=%s what=race report from the Go race detector (phase %s)" % (k, name))
                        rc = 1
                # the Go test binary exits non-zero when a race was reported; that alone is not a verdict
                if (rc == 0 and p.returncode == 1 and not vio and "race detected during execution of test" in text
                        and not any(l.startswith("INCONCLUSIVE ") for l in text.splitlines())
                        and not re.search(r"^(panic:|fatal error:)", text, re.M)):
                    p = subprocess.CompletedProcess(p.args, 0)
            if p.returncode != 0 and rc == 0:
                if p.returncode in (124, 137) or "SIGQUIT: quit" in text:
                    out_lines.append("INCONCLUSIVE property=%s why=watchdog (%ss) fired in phase %s; log=%s" % (pid, tmo, name, final_log))
                    rc = 2
                elif any(l.startswith("INCONCLUSIVE ") for l in text.splitlines()):
                    rc = 2
                elif re.search(r"^(panic:|fatal error:|unexpected fault address|SIGSEGV)", text, re.M) or "[signal " in text:
                    # the real code (or the harness) died: the log and the last case are the witness
                    rp = os.path.join(VERIF, "replays", "%s-%s-crash.txt" % (pid, tier))
                    with open(rp, "w") as f:
                        if os.path.exists(tmp + "/lastcase"):
                            f.write("last case before the crash:\n" + open(tmp + "/lastcase").read() + "\n")
                        f.write(text[-20000:])
                    out_lines.append("VIOLATION property=%s replay=%s" % (pid, rp))
                    out_lines.append("  key=process-crash what=test process died (panic / fatal error), see replay")
                    rc = 1
                else:
                    sys.stdout.write(text[-4000:])
                    out_lines.append("INCONCLUSIVE property=%s why=check process exited %d without a verdict; log=%s" % (pid, p.returncode, final_log))
                    rc = 2
            # merge evidence
            pe = os.path.join(tmp, "ev", pid + ".json")
            if os.path.exists(pe):
                ev = json.load(open(pe))
                os.remove(pe)
                if merged is None:
                    merged = ev
                    merged["coverage"]["phases"] = {}
                else:
                    merged["coverage"]["evaluations"] += ev["coverage"].get("evaluations", 0)
                    merged["violations"] = merged.get("violations", 0) + ev.get("violations", 0)
                    for a in ev.get("assumptions", []):
                        if a not in merged["assumptions"]:
                            merged["assumptions"].append(a)
                merged["coverage"]["phases"][name] = {
                    "race_detector": race, "std_overlay": overlay,
                    "evaluations": ev["coverage"].get("evaluations", 0),
                    "distinct_nontrivial": ev["coverage"].get("distinct_nontrivial", 0),
                    "observed": ev["coverage"].get("observed", {}),
                    "race_reports": len(races), "race_keys": sorted(races), "exit": p.returncode}
            if rc == 1:
                break
        if merged is not None:
            merged["wall_s"] = round(time.time() - t0, 1)
            if rc == 1 and not merged.get("violations"):
                merged["violations"] = 1
            json.dump(merged, open(evfile, "w"), indent=1)
            if tier == "thorough" and not alt:
                # the per-property evidence file is rewritten by every run; the last thorough run is
                # also kept aside so that a later quick run does not erase what it covered
                os.makedirs(os.path.join(VERIF, "evidence-thorough"), exist_ok=True)
                json.dump(merged, open(os.path.join(VERIF, "evidence-thorough", pid + ".json"), "w"), indent=1)
        if rc == 0:
            err = validate_evidence(evfile, pid, tier, spec["level"]) if merged is not None else "no evidence written"
            if err:
                out_lines.append("INCONCLUSIVE property=%s why=%s" % (pid, err))
                rc = 2
    finally:
        for src, dst in locals().get("logs_to_copy", []):
            try:
                shutil.copyfile(src, dst)
            except Exception:
                pass
        if not keep:
            shutil.rmtree(tmp, ignore_errors=True)
    for l in out_lines:
        print(l)
    print("RESULT property=%s tier=%s exit=%d wall=%.0fs" % (pid, tier, rc, time.time() - t0))
    return rc


def setup():
    reg = registry()
    pkgs, racepkgs, ovl = set(), set(), set()
    for pid, spec in reg["checks"].items():
        for ph in spec.get("phases") or [{}]:
            pkg = ph.get("pkg", spec["pkg"])
            if ph.get("overlay"):
                ovl.add(pkg)
            elif ph.get("race"):
                racepkgs.add(pkg)
            else:
                pkgs.add(pkg)
    env = goenv()
    rc = 0
    tmp = "/var/tmp/verif-setup-%d" % os.getpid()
    os.makedirs(tmp, exist_ok=True)
    gen_gomod(tmp)
    try:
        for label, ps, extra in (("plain", pkgs, []), ("race", racepkgs, ["-race"])):
            if not ps:
                continue
            cmd = ["go", "test", "-modfile=" + os.path.join(tmp, "go.mod"), "-tags", "verif", "-vet=off", "-count=1", "-run", "^$"] + extra + ["./" + p for p in sorted(ps)]
            print("$", " ".join(cmd), flush=True)
            p = subprocess.run(cmd, cwd=H, env=env)
            rc |= p.returncode
        for pkg in sorted(ovl):
            ok = build(pkg, os.path.join(tmp, "ovl.test"), False, True, tmp, os.path.join(tmp, "ovl.log"))
            if not ok:
                sys.stdout.write(open(os.path.join(tmp, "ovl.log")).read()[-3000:])
                rc |= 1
    finally:
        shutil.rmtree(tmp, ignore_errors=True)
    print("setup exit", rc)
    return 1 if rc else 0


def main():
    a = sys.argv[1:]
    if not a or a[0] in ("-h", "--help"):
        print(__doc__)
        return 0
    if a[0] == "--setup":
        return setup()
    if a[0] == "--list":
        for k, v in sorted(registry()["checks"].items()):
            print(k, v["pkg"], v["level"])
        return 0
    pid = a[0]
    tier = os.environ.get("VERIF_TIER", "quick")
    replay = None
    keep = False
    i = 1
    while i < len(a):
        if a[i] == "--tier":
            tier = a[i + 1]; i += 2
        elif a[i] == "--replay":
            replay = a[i + 1]; i += 2
        elif a[i] == "--keep":
            keep = True; i += 1
        else:
            print("bad arg", a[i]); return 2
    if tier not in ("quick", "thorough"):
        tier = "quick"
    return run_check(pid, tier, replay, keep)


if __name__ == "__main__":
    sys.exit(main())
