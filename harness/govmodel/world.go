// Package govmodel is the shared engine of the governance checks C32–C35: it drives the REAL
// node_manager / side_chain_manager / relayer_manager / neo3_state_manager contracts through
// kit/nat with generated histories (requests and approvals by owners, validators, repeat
// approvers, outsiders; epoch changes interleaved) and, after every operation, compares what the
// contracts did with an executable reference model written from the property statements.
//
// world.go: actors, operations, execution against the real contracts, observation of their state.
package govmodel

import (
	"crypto/elliptic"
	"encoding/binary"
	"encoding/hex"
	"fmt"
	"math/rand"
	"sort"
	"strings"

	"github.com/ontio/ontology-crypto/ec"
	"github.com/ontio/ontology-crypto/keypair"
	"github.com/polynetwork/poly/common"
	cstates "github.com/polynetwork/poly/core/states"
	"github.com/polynetwork/poly/core/types"
	"github.com/polynetwork/poly/native/service/governance/neo3_state_manager"
	"github.com/polynetwork/poly/native/service/governance/node_manager"
	"github.com/polynetwork/poly/native/service/governance/relayer_manager"
	"github.com/polynetwork/poly/native/service/governance/side_chain_manager"
	"github.com/polynetwork/poly/native/service/utils"

	"verifharness/kit/nat"
	"verifharness/kit/pk"
)

// Pool member statuses as the contracts publish them.
const (
	StCand  = 0
	StCons  = 1
	StQuit  = 2
	StBlack = 3
)

// Operation kinds (= contract method names, plus "advance").
const (
	KRegisterCandidate   = "registerCandidate"
	KUnRegisterCandidate = "unRegisterCandidate"
	KApproveCandidate    = "approveCandidate"
	KBlackNode           = "blackNode"
	KWhiteNode           = "whiteNode"
	KQuitNode            = "quitNode"
	KCommitDpos          = "commitDpos"
	KAdvance             = "advance"

	KRegisterSideChain = "registerSideChain"
	KApproveRegisterSC = "approveRegisterSideChain"
	KUpdateSideChain   = "updateSideChain"
	KApproveUpdateSC   = "approveUpdateSideChain"
	KQuitSideChain     = "quitSideChain"
	KApproveQuitSC     = "approveQuitSideChain"

	KRegisterRelayer   = "registerRelayer"
	KApproveRegRelayer = "approveRegisterRelayer"
	KRemoveRelayer     = "RemoveRelayer"
	KApproveRemRelayer = "approveRemoveRelayer"

	KRegisterSV   = "registerStateValidator"
	KApproveRegSV = "approveRegisterStateValidator"
	KRemoveSV     = "removeStateValidator"
	KApproveRemSV = "approveRemoveStateValidator"
)

// Actor is a key with a role name (n3 = node key 3, o1 = owner 1, x0 = outsider 0).
type Actor struct {
	Name string
	Key  *pk.Key
}

func (a *Actor) Addr() common.Address { return a.Key.Addr }

// ChainRec is a side-chain record / request content.
type ChainRec struct {
	Owner  common.Address
	ID     uint64
	Router uint64
	Name   string
	BTW    uint64
	CCMC   []byte
	Extra  []byte
}

func (c *ChainRec) line() string {
	return fmt.Sprintf("chain %d owner=%x router=%d name=%q btw=%d ccmc=%x extra=%x", c.ID, c.Owner[:], c.Router, c.Name, c.BTW, c.CCMC, c.Extra)
}

// Op is one step of a history.
type Op struct {
	Kind   string
	Actor  *Actor   // signs the transaction
	Named  *Actor   // address named in the parameters (nil = Actor)
	NoSig  bool     // send without any signature (commitDpos when due)
	OpSig  bool     // sign with the consensus-operator multi-sig (commitDpos)
	Node   string   // public-key string for node operations
	List   []string // blackNode list / state-validator list
	Addrs  []common.Address
	Chain  *ChainRec
	ID     uint64
	Delta  uint32
	Tag    string // generator annotation (why this op was chosen)
	Script string // name of the directed scenario step, if any
}

func (o *Op) named() *Actor {
	if o.Named != nil {
		return o.Named
	}
	return o.Actor
}

func short(s string) string {
	if len(s) > 10 {
		return s[:6] + ".." + s[len(s)-2:]
	}
	return s
}

// World is one contract-state universe with its actors.
type World struct {
	E         *nat.Env
	Nodes     []*Actor // node keys; the first N0 are the genesis validators
	N0        int
	Owners    []*Actor
	Outsiders []*Actor
	RelayerU  []common.Address // relayer address universe
	SVU       []string         // state-validator string universe
	ChainIDs  []uint64
	byAddr    map[common.Address]*Actor
	nodeByStr map[string]*Actor // every known spelling of a node key -> actor
	variants  map[string][]string
	canonMemo map[string]string
	RealSig   bool
	// IndexShape: how the genesis peer indices were laid out
	IndexShape string
}

// Universe holds keys generated once per run (key generation is the expensive part).
type Universe struct {
	Nodes, Owners, Outsiders []*pk.Key
	Relayers                 []*pk.Key
}

func NewUniverse(rng *rand.Rand, nodes int) *Universe {
	return &Universe{Nodes: pk.NewKeys(rng, nodes), Owners: pk.NewKeys(rng, 4), Outsiders: pk.NewKeys(rng, 3), Relayers: pk.NewKeys(rng, 8)}
}

// NewWorld builds a universe whose genesis pool is a random n0-subset of the node keys plus
// `extra` further node keys that may become candidates.
func NewWorld(u *Universe, rng *rand.Rand, n0, extra int) (*World, error) {
	w := &World{E: nat.New(5), N0: n0, byAddr: map[common.Address]*Actor{}, nodeByStr: map[string]*Actor{},
		variants: map[string][]string{}, canonMemo: map[string]string{}, RealSig: true}
	perm := rng.Perm(len(u.Nodes))
	for i := 0; i < n0+extra && i < len(perm); i++ {
		a := &Actor{Name: fmt.Sprintf("n%d", i), Key: u.Nodes[perm[i]]}
		w.Nodes = append(w.Nodes, a)
		w.byAddr[a.Addr()] = a
		for _, v := range Variants(a.Key) {
			w.nodeByStr[v] = a
		}
		w.variants[a.Key.PubHex()] = Variants(a.Key)
	}
	for i, k := range u.Owners {
		a := &Actor{Name: fmt.Sprintf("o%d", i), Key: k}
		w.Owners = append(w.Owners, a)
		w.byAddr[a.Addr()] = a
	}
	for i, k := range u.Outsiders {
		a := &Actor{Name: fmt.Sprintf("x%d", i), Key: k}
		w.Outsiders = append(w.Outsiders, a)
		w.byAddr[a.Addr()] = a
	}
	for _, k := range u.Relayers {
		w.RelayerU = append(w.RelayerU, k.Addr)
	}
	for i := 0; i < 6; i++ {
		// NEO3 state validators are 33-byte public keys in hex; the contract treats them as opaque strings.
		w.SVU = append(w.SVU, u.Relayers[i%len(u.Relayers)].PubHex()[:60]+fmt.Sprintf("%06d", i))
	}
	w.ChainIDs = []uint64{0, 1, 2, 3, 18446744073709551615} // 0 and the largest id are boundary values of the id encoding
	var vals []*pk.Key
	for i := 0; i < n0; i++ {
		vals = append(vals, w.Nodes[i].Key)
	}
	// genesis configuration built here (not by nat.InitGovernance) so that peer indices and the epoch
	// length take boundary shapes: contiguous 1..n, gapped, starting above 1, unordered, large
	vb := pk.SetConfig(5, vals)
	w.IndexShape = []string{"contiguous", "gapped", "offset", "unordered", "large", "gapped"}[rng.Intn(6)]
	idx := make([]uint32, n0)
	next := uint32(1)
	for i := range idx {
		switch w.IndexShape {
		case "gapped":
			next += uint32(rng.Intn(3)) // some indices are skipped
		case "offset":
			if i == 0 {
				next = uint32(2 + rng.Intn(50))
			}
		case "large":
			if i == n0-1 {
				next = 4294967295 - 1000 - uint32(rng.Intn(1000)) // far from wrap-around within one history
			}
		}
		idx[i] = next
		next++
	}
	if w.IndexShape == "gapped" && idx[n0-1] == uint32(n0) {
		idx[n0-1] = uint32(n0 + 1) // at least one gap
	}
	if w.IndexShape == "unordered" {
		rng.Shuffle(n0, func(i, j int) { idx[i], idx[j] = idx[j], idx[i] })
	}
	for i, p := range vb.Peers {
		p.Index = idx[i]
	}
	vb.MaxBlockChangeView = []uint32{100, 100, 1, 2, 1000}[rng.Intn(5)]
	sink := common.NewZeroCopySink(nil)
	vb.Serialization(sink)
	w.E.Height = 0
	rec := w.E.Call(utils.NodeManagerContractAddress, "initConfig", sink.Bytes())
	w.E.Height = 1
	if !rec.Ok {
		return nil, fmt.Errorf("initConfig: %s", rec.Err)
	}
	w.E.Validators = vals
	return w, nil
}

// Variants lists spellings of one public key that the contracts' parsers accept:
// [0] canonical (lower-case hex of the 33-byte compressed form), [1] upper-case hex, [2] mixed
// case, [3] uncompressed (0x04||X||Y) lower-case.
func Variants(k *pk.Key) []string {
	c := k.PubHex()
	up := strings.ToUpper(c)
	mixed := []byte(c)
	for i := range mixed {
		if i%2 == 0 {
			mixed[i] = strings.ToUpper(string(mixed[i]))[0]
		}
	}
	out := []string{c, up, string(mixed)}
	if pub, err := keypair.DeserializePublicKey(k.PubBytes()); err == nil {
		if un := uncompressed(pub); un != "" {
			out = append(out, un)
		}
	}
	return out
}

func uncompressed(pub keypair.PublicKey) string {
	if p, ok := pub.(*ec.PublicKey); ok {
		return hex.EncodeToString(elliptic.Marshal(p.Curve, p.X, p.Y))
	}
	return ""
}

// VariantClass says how spelling s relates to the canonical spelling c of the same key.
func VariantClass(s, c string) string {
	switch {
	case s == c:
		return "canonical"
	case strings.ToLower(s) == c:
		return "hex-case"
	default:
		return "alt-encoding"
	}
}

// Canon maps any accepted spelling of a public key to the canonical one (decoded with the
// ontology-crypto library, re-encoded compressed). Undecodable strings map to "!"+lower-case.
func (w *World) Canon(s string) string {
	if c, ok := w.canonMemo[s]; ok {
		return c
	}
	c := "!" + strings.ToLower(s)
	if b, err := hex.DecodeString(s); err == nil {
		if pub, err := keypair.DeserializePublicKey(b); err == nil {
			c = hex.EncodeToString(keypair.SerializePublicKey(pub))
		}
	}
	w.canonMemo[s] = c
	return c
}

// NodeAddr is the account address of the node key spelled s (the address whose approvals count).
func (w *World) NodeAddr(s string) (common.Address, bool) {
	if a := w.nodeByStr[s]; a != nil {
		return a.Addr(), true
	}
	b, err := hex.DecodeString(s)
	if err != nil {
		return common.Address{}, false
	}
	pub, err := keypair.DeserializePublicKey(b)
	if err != nil {
		return common.Address{}, false
	}
	return types.AddressFromPubKey(pub), true
}

func (w *World) ActorOf(a common.Address) *Actor { return w.byAddr[a] }

func (w *World) nameOf(a common.Address) string {
	if x := w.byAddr[a]; x != nil {
		return x.Name
	}
	return fmt.Sprintf("%x", a[:4])
}

func (w *World) nodeName(s string) string {
	if a := w.nodeByStr[s]; a != nil {
		cl := VariantClass(s, a.Key.PubHex())
		if cl == "canonical" {
			return a.Name
		}
		return a.Name + "~" + cl
	}
	return short(s)
}

// Describe renders an op for replay files.
func (w *World) Describe(o *Op) string {
	who := "nobody"
	if o.OpSig {
		who = "operator"
	} else if !o.NoSig && o.Actor != nil {
		who = o.Actor.Name
	}
	named := ""
	if o.Named != nil && o.Named != o.Actor {
		named = " naming " + o.Named.Name
	}
	var arg string
	switch o.Kind {
	case KAdvance:
		return fmt.Sprintf("advance +%d", o.Delta)
	case KRegisterCandidate, KUnRegisterCandidate, KApproveCandidate, KWhiteNode, KQuitNode:
		arg = w.nodeName(o.Node)
	case KBlackNode:
		var p []string
		for _, s := range o.List {
			p = append(p, w.nodeName(s))
		}
		arg = strings.Join(p, ",")
	case KRegisterSideChain, KUpdateSideChain:
		arg = fmt.Sprintf("id=%d router=%d name=%s btw=%d", o.Chain.ID, o.Chain.Router, o.Chain.Name, o.Chain.BTW)
	case KRegisterRelayer, KRemoveRelayer:
		var p []string
		for _, a := range o.Addrs {
			p = append(p, fmt.Sprintf("r%d", w.relayerIdx(a)))
		}
		arg = strings.Join(p, ",")
	case KRegisterSV, KRemoveSV:
		var p []string
		for _, s := range o.List {
			p = append(p, "sv"+s[len(s)-1:])
		}
		arg = strings.Join(p, ",")
	case KCommitDpos:
		arg = ""
	default:
		arg = fmt.Sprintf("id=%d", o.ID)
	}
	return fmt.Sprintf("%s(%s) by %s%s", o.Kind, arg, who, named)
}

func (w *World) relayerIdx(a common.Address) int {
	for i, x := range w.RelayerU {
		if x == a {
			return i
		}
	}
	return -1
}

// ConsensusKeys returns the node keys for the given canonical key strings.
func (w *World) keysOf(canons []string) []*pk.Key {
	var ks []*pk.Key
	for _, c := range canons {
		if a := w.nodeByStr[c]; a != nil {
			ks = append(ks, a.Key)
		}
	}
	return ks
}

func contractOf(kind string) common.Address {
	switch kind {
	case KRegisterCandidate, KUnRegisterCandidate, KApproveCandidate, KBlackNode, KWhiteNode, KQuitNode, KCommitDpos:
		return utils.NodeManagerContractAddress
	case KRegisterSideChain, KApproveRegisterSC, KUpdateSideChain, KApproveUpdateSC, KQuitSideChain, KApproveQuitSC:
		return utils.SideChainManagerContractAddress
	case KRegisterRelayer, KApproveRegRelayer, KRemoveRelayer, KApproveRemRelayer:
		return utils.RelayerManagerContractAddress
	default:
		return utils.Neo3StateManagerContractAddress
	}
}

// Family of an op kind: node | side_chain | relayer | neo3.
func Family(kind string) string {
	switch contractOf(kind) {
	case utils.NodeManagerContractAddress:
		return "node"
	case utils.SideChainManagerContractAddress:
		return "side_chain"
	case utils.RelayerManagerContractAddress:
		return "relayer"
	}
	return "neo3"
}

// Encode builds the contract argument bytes of an op.
func (w *World) Encode(o *Op) []byte {
	sink := common.NewZeroCopySink(nil)
	addr := common.Address{}
	if n := o.named(); n != nil {
		addr = n.Addr()
	}
	switch o.Kind {
	case KRegisterCandidate:
		(&node_manager.RegisterPeerParam{PeerPubkey: o.Node, Address: addr}).Serialization(sink)
	case KUnRegisterCandidate, KApproveCandidate, KWhiteNode, KQuitNode:
		(&node_manager.PeerParam{PeerPubkey: o.Node, Address: addr}).Serialization(sink)
	case KBlackNode:
		(&node_manager.PeerListParam{PeerPubkeyList: o.List, Address: addr}).Serialization(sink)
	case KCommitDpos:
	case KRegisterSideChain, KUpdateSideChain:
		c := o.Chain
		(&side_chain_manager.RegisterSideChainParam{Address: c.Owner, ChainId: c.ID, Router: c.Router, Name: c.Name,
			BlocksToWait: c.BTW, CCMCAddress: c.CCMC, ExtraInfo: c.Extra}).Serialization(sink)
	case KApproveRegisterSC, KApproveUpdateSC, KQuitSideChain, KApproveQuitSC:
		(&side_chain_manager.ChainidParam{Chainid: o.ID, Address: addr}).Serialization(sink)
	case KRegisterRelayer, KRemoveRelayer:
		(&relayer_manager.RelayerListParam{AddressList: o.Addrs, Address: addr}).Serialization(sink)
	case KApproveRegRelayer, KApproveRemRelayer:
		(&relayer_manager.ApproveRelayerParam{ID: o.ID, Address: addr}).Serialization(sink)
	case KRegisterSV, KRemoveSV:
		(&neo3_state_manager.StateValidatorListParam{StateValidators: o.List, Address: addr}).Serialization(sink)
	case KApproveRegSV, KApproveRemSV:
		(&neo3_state_manager.ApproveStateValidatorParam{ID: o.ID, Address: addr}).Serialization(sink)
	default:
		panic("encode: unknown op kind " + o.Kind)
	}
	return sink.Bytes()
}

// Exec runs the op against the real contract. consensus = canonical key strings of the members
// the caller believes to be the consensus set (used only to build the operator signature).
func (w *World) Exec(o *Op, consensus []string) *nat.CallRecord {
	if o.Kind == KAdvance {
		if o.Delta > 4294967295-w.E.Height {
			o.Delta = 4294967295 - w.E.Height // block heights are uint32
		}
		w.E.Height += o.Delta
		if w.E.Time < 4000000000 {
			w.E.Time += 15 * (o.Delta % 1000)
		}
		return &nat.CallRecord{Ok: true, Method: KAdvance}
	}
	args := w.Encode(o)
	c := contractOf(o.Kind)
	switch {
	case o.NoSig:
		return w.E.Call(c, o.Kind, args)
	case o.OpSig:
		ks := w.keysOf(consensus)
		if len(ks) == 0 {
			// no member key to build an operator multi-signature from: the call goes out unsigned
			// (a signature entry without keys cannot even be serialised)
			return w.E.Call(c, o.Kind, args)
		}
		return w.E.Call(c, o.Kind, args, nat.Operator(ks))
	case w.RealSig:
		return w.E.Call(c, o.Kind, args, pk.Single(o.Actor.Key))
	default:
		return w.E.CallAs(c, o.Kind, args, o.Actor.Addr())
	}
}

// ---------------------------------------------------------------------------------------------
// Observation of the real contracts' state.

// PoolEntry is one entry of the stored validator pool, decoded independently of poly's map type
// (so two stored entries with the same key string stay two entries).
type PoolEntry struct {
	Index  uint32
	Str    string
	Canon  string
	Owner  common.Address
	Status uint8
}

// Obs is what the contracts' state looks like after an operation.
type Obs struct {
	View, ViewHeight uint32
	Pool             []PoolEntry
	MapLen           int             // size of the pool as poly's own getter sees it
	Black            map[string]bool // canonical key -> a blacklist record exists under some spelling
	Chains           map[uint64]*ChainRec
	Relayers         map[common.Address]bool
	SVs              []string
	Err              string
}

func le32(v uint32) []byte { b := make([]byte, 4); binary.LittleEndian.PutUint32(b, v); return b }

func key(contract common.Address, parts ...[]byte) []byte {
	k := append([]byte{}, contract[:]...)
	for _, p := range parts {
		k = append(k, p...)
	}
	return k
}

// Observe reads everything the reference model talks about.
func (w *World) Observe() *Obs {
	o := &Obs{Black: map[string]bool{}, Chains: map[uint64]*ChainRec{}, Relayers: map[common.Address]bool{}}
	svc := w.E.Service()
	gv, err := node_manager.GetGovernanceView(svc)
	if err != nil {
		o.Err = "view: " + err.Error()
		return o
	}
	o.View, o.ViewHeight = gv.View, gv.Height
	get := func(k []byte) []byte { v, _ := svc.GetCacheDB().Get(k); return v }
	raw := get(key(utils.NodeManagerContractAddress, []byte(node_manager.PEER_POOL), le32(gv.View)))
	if raw == nil {
		o.Err = "pool of current view missing"
		return o
	}
	val, err := cstates.GetValueFromRawStorageItem(raw)
	if err != nil {
		o.Err = "pool item: " + err.Error()
		return o
	}
	src := common.NewZeroCopySource(val)
	n, eof := src.NextVarUint()
	if eof {
		o.Err = "pool: truncated"
		return o
	}
	for i := uint64(0); i < n; i++ {
		idx, e1 := src.NextUint32()
		str, e2 := src.NextString()
		ab, e3 := src.NextVarBytes()
		st, e4 := src.NextUint8()
		if e1 || e2 || e3 || e4 {
			o.Err = "pool: truncated entry"
			return o
		}
		a, err := common.AddressParseFromBytes(ab)
		if err != nil {
			o.Err = "pool: owner: " + err.Error()
			return o
		}
		o.Pool = append(o.Pool, PoolEntry{Index: idx, Str: str, Canon: w.Canon(str), Owner: a, Status: st})
	}
	if pm, err := node_manager.GetPeerPoolMap(svc, gv.View); err == nil {
		o.MapLen = len(pm.PeerPoolMap)
	} else {
		o.MapLen = -1
	}
	for c, vs := range w.variants {
		for _, v := range vs {
			b, _ := hex.DecodeString(v)
			if get(key(utils.NodeManagerContractAddress, []byte(node_manager.BLACK_LIST), b)) != nil {
				o.Black[c] = true
			}
		}
	}
	for _, id := range w.ChainIDs {
		sc, err := side_chain_manager.GetSideChain(svc, id)
		if err != nil {
			o.Err = "side chain: " + err.Error()
			return o
		}
		if sc != nil {
			o.Chains[id] = &ChainRec{Owner: sc.Address, ID: sc.ChainId, Router: sc.Router, Name: sc.Name, BTW: sc.BlocksToWait, CCMC: sc.CCMCAddress, Extra: sc.ExtraInfo}
		}
	}
	for _, a := range w.RelayerU {
		if get(key(utils.RelayerManagerContractAddress, []byte(relayer_manager.RELAYER), a[:])) != nil {
			o.Relayers[a] = true
		}
	}
	svRaw, err := neo3_state_manager.GetCurrentStateValidator(svc)
	if err != nil {
		o.Err = "getCurrentStateValidator: " + err.Error()
		return o
	}
	if len(svRaw) > 0 {
		s := common.NewZeroCopySource(svRaw)
		n, eof := s.NextVarUint()
		for i := uint64(0); !eof && i < n; i++ {
			var str string
			str, eof = s.NextString()
			if !eof {
				o.SVs = append(o.SVs, str)
			}
		}
		if eof {
			o.Err = "state validators: truncated"
		}
	}
	return o
}

// PeerApplyOwner reports the pending candidacy request stored for a key spelling (via poly's getter).
func (w *World) PeerApplyOwner(s string) (common.Address, bool) {
	p, err := node_manager.GetPeerApply(w.E.Service(), s)
	if err != nil || p == nil {
		return common.Address{}, false
	}
	return p.Address, true
}

// Lines renders an observation in the comparable form the model renders too.
func (o *Obs) Lines() []string {
	ls := []string{fmt.Sprintf("view %d changed-at-height %d", o.View, o.ViewHeight)}
	for _, e := range o.Pool {
		ls = append(ls, poolLine(e.Canon, e.Status, e.Owner))
	}
	for c := range o.Black {
		ls = append(ls, "black "+c)
	}
	for _, c := range o.Chains {
		ls = append(ls, c.line())
	}
	for a := range o.Relayers {
		ls = append(ls, fmt.Sprintf("relayer %x", a[:]))
	}
	for _, s := range o.SVs {
		ls = append(ls, "sv "+s)
	}
	sort.Strings(ls)
	return ls
}

func poolLine(canon string, st uint8, owner common.Address) string {
	return fmt.Sprintf("pool %s status=%d owner=%x", canon, st, owner[:])
}
