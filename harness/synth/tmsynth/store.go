package tmsynth

import (
	"github.com/cosmos/cosmos-sdk/store/rootmulti"
	sdk "github.com/cosmos/cosmos-sdk/types"
	abci "github.com/tendermint/tendermint/abci/types"
	"github.com/tendermint/tendermint/crypto/merkle"
	dbm "github.com/tendermint/tm-db"
)

// Store is a real cosmos-sdk v0.39.1 multistore (IAVL sub-stores over a memdb) whose committed
// versions give honest app hashes and honest existence / absence proofs.
type Store struct {
	ms    *rootmulti.Store
	keys  map[string]*sdk.KVStoreKey
	Main  string
	Vers  []*Version
	state map[string][]byte // live content of the main store
}

// Version is one committed version of the multistore.
type Version struct {
	Ver     int64
	AppHash []byte
	KV      map[string][]byte // content of the main store at this version
}

// NewStore mounts the main store and some neighbours (so the multistore level is not trivial).
func NewStore(main string, others ...string) *Store {
	s := &Store{ms: rootmulti.NewStore(dbm.NewMemDB()), keys: map[string]*sdk.KVStoreKey{}, Main: main, state: map[string][]byte{}}
	for _, n := range append([]string{main}, others...) {
		k := sdk.NewKVStoreKey(n)
		s.keys[n] = k
		s.ms.MountStoreWithDB(k, sdk.StoreTypeIAVL, nil)
	}
	if err := s.ms.LoadLatestVersion(); err != nil {
		panic(err)
	}
	return s
}

// Set writes into the main store (uncommitted).
func (s *Store) Set(k, v []byte) {
	s.ms.GetKVStore(s.keys[s.Main]).Set(k, v)
	s.state[string(k)] = append([]byte{}, v...)
}

// SetIn writes into another mounted store.
func (s *Store) SetIn(store string, k, v []byte) { s.ms.GetKVStore(s.keys[store]).Set(k, v) }

// Delete removes from the main store.
func (s *Store) Delete(k []byte) {
	s.ms.GetKVStore(s.keys[s.Main]).Delete(k)
	delete(s.state, string(k))
}

// Commit commits a version.
func (s *Store) Commit() *Version {
	cid := s.ms.Commit()
	v := &Version{Ver: cid.Version, AppHash: append([]byte{}, cid.Hash...), KV: map[string][]byte{}}
	for k, val := range s.state {
		v.KV[k] = val
	}
	s.Vers = append(s.Vers, v)
	return v
}

// Prove queries the main store with Prove:true. value == nil means the proof is an absence proof.
func (s *Store) Prove(ver int64, key []byte) (proof *merkle.Proof, value []byte) {
	res := s.ms.Query(abci.RequestQuery{Path: "/" + s.Main + "/key", Data: key, Prove: true, Height: ver})
	if res.Proof == nil {
		panic("tmsynth: no proof: " + res.Log)
	}
	return res.Proof, res.Value
}

// KeyPath is the canonical key path string of a key in the main store ("/store/x:hex").
func (s *Store) KeyPath(key []byte) string {
	return KeyPath(s.Main, key, true)
}

// KeyPath builds "/store/<key>" with hex ("x:..") or URL encoding of the key.
func KeyPath(store string, key []byte, hexEnc bool) string {
	kp := merkle.KeyPath{}
	kp = kp.AppendKey([]byte(store), merkle.KeyEncodingURL)
	if hexEnc {
		kp = kp.AppendKey(key, merkle.KeyEncodingHex)
	} else {
		kp = kp.AppendKey(key, merkle.KeyEncodingURL)
	}
	return kp.String()
}

// HasValue reports whether some key of the version holds exactly this value.
func (v *Version) HasValue(val []byte) bool {
	for _, x := range v.KV {
		if string(x) == string(val) {
			return true
		}
	}
	return false
}
