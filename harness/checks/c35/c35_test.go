// C35: side-chain registry changes only through owner request and validator approval.
package c35

import (
	"testing"

	"verifharness/govmodel"
	"verifharness/kit"
)

func TestC35(t *testing.T) {
	r := kit.Start(t, "C35", "exploration")
	defer r.Finish()
	r.Rule("random interleavings of register/update/quit requests by owners, other owners, outsiders and callers naming the owner's address without its signature, " +
		"with single approvals and approval rounds over pools 4..maxN and 5 chain ids, plus a directed scenario walking every non-owner path. After EVERY operation " +
		"the registry (all 7 record fields for each id) must equal the model registry; at each effect: record == approved request, registration never overwrites a registered id, " +
		"update/removal stems from a request signed by the owner registered at request time. Distinct = (op kind, success, tag) and approval fingerprints")
	cfg := govmodel.Config{Property: "C35", Histories: r.N(220, 10000), Ops: r.N(80, 110), MinN: 4, MaxN: r.N(10, 25),
		Wt:      govmodel.Weights{Node: 1, SideChain: 6, Relayer: 0, Neo3: 0, SecondRound: 10},
		Scripts: govmodel.RegistryScripts(), ScriptReps: r.N(14, 220), RealSig: true}
	govmodel.Run(r, cfg)
	r.Require("registry_register_applied", r.N(200, 3000))
	r.Require("registry_update_applied_after_owner_request", r.N(60, 900))
	r.Require("registry_removal_applied_after_owner_request", r.N(60, 900))
	r.Require("failed@updateSideChain", r.N(100, 1500))
	r.Require("failed@quitSideChain", r.N(100, 1500))
	r.Require("failed@registerSideChain", r.N(100, 1500))
	r.Require("ok@updateSideChain", r.N(100, 1500))
	r.Require("ok@quitSideChain", r.N(100, 1500))
	r.Assume("'request by its registered owner' = the request transaction was signed by the address registered as owner of that chain id when the request was made (DESIGN §8, weaker reading); " +
		"a removal/update applied later on behalf of a previous owner's still-pending request is recorded (registry_*_on_request_of_previous_owner), not judged here (C33 judges consumed requests)")
	r.Require("register_approvals_while_id_registered_to_the_applicant", r.N(30, 400))
	r.Require("register_approvals_while_id_registered_to_another_owner", r.N(30, 400))
	r.Require("registration_request_for_free_id_ok", r.N(200, 3000))
	r.Assume("'registered at most once at a time' is also applied to requests: a registerSideChain call must not succeed for an id that is registered at that moment " +
		"(otherwise the id is in the process of being registered twice; after 175c66d the approval would be refused, so the registry itself stays intact)")
	r.Assume("an update request replaced by its owner before approval: the record must equal the request pending when the approval took effect")
}
