package ccmsynth

import (
	"fmt"

	"github.com/polynetwork/poly/common"

	"verifharness/kit/pk"
)

// VoteModel is the reference model of vote-based approval, written from the property statement
// (C25) with the reading fixed in DESIGN §8: only current consensus validators may vote, each
// counts once, and the subject is released at the first call by a current validator after which
// the number of distinct current validators who voted is >= ceil(2N/3); never again afterwards.
// "Current" is the validator set at the time of each call.
type VoteModel struct {
	Voted    map[string]map[common.Address]bool
	Released map[string]bool
}

func NewVoteModel() *VoteModel {
	return &VoteModel{Voted: map[string]map[common.Address]bool{}, Released: map[string]bool{}}
}

// Verdict of one vote call according to the model.
type Verdict int

const (
	Outsider        Verdict = iota // caller is not a current validator: must not count, must not release
	AlreadyReleased                // subject already released: must not release again
	Counted                        // vote (or repeat) by a current validator, threshold not reached
	Reached                        // this call brings the count to the threshold: release now
)

func (v Verdict) String() string {
	return [...]string{"outsider", "already-released", "counted", "reached"}[v]
}

// SubjectID is the model's identity of a vote-router subject (source chain, height, message bytes).
func SubjectID(source uint64, height uint32, extra []byte) string {
	return fmt.Sprintf("%d/%d/%x", source, height, extra)
}

// Classify says what the call must do, without changing the model.
func (m *VoteModel) Classify(id string, voter common.Address, current []*pk.Key) Verdict {
	member := false
	for _, k := range current {
		if k.Addr == voter {
			member = true
		}
	}
	if m.Released[id] {
		return AlreadyReleased
	}
	if !member {
		return Outsider
	}
	n := 0
	for _, k := range current {
		if m.Voted[id][k.Addr] || k.Addr == voter {
			n++
		}
	}
	if n >= Threshold(len(current)) {
		return Reached
	}
	return Counted
}

// Count is the number of distinct current validators recorded as having voted on id.
func (m *VoteModel) Count(id string, current []*pk.Key) int {
	n := 0
	for _, k := range current {
		if m.Voted[id][k.Addr] {
			n++
		}
	}
	return n
}

// Commit applies a call that the chain executed successfully (its transaction was kept).
// released says whether the subject was released by it.
func (m *VoteModel) Commit(id string, voter common.Address, v Verdict, released bool) {
	if v == Outsider || v == AlreadyReleased {
		return
	}
	if m.Voted[id] == nil {
		m.Voted[id] = map[common.Address]bool{}
	}
	m.Voted[id][voter] = true
	if released {
		m.Released[id] = true
	}
}
