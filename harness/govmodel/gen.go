// gen.go: history generator. All choices come from the run's PRNG; map iteration is always
// sorted first so that a (seed, tier) pair fixes the histories.
package govmodel

import (
	"fmt"
	"math/rand"
	"sort"
	"strconv"
	"strings"

	"github.com/polynetwork/poly/common"
)

// Weights scales the op families of random histories.
type Weights struct {
	Node, SideChain, Relayer, Neo3 int
	SecondRound                    int // percent of approval targets drawn from already-applied requests
	Hostile                        bool
}

// Gen produces the next operation from the model's current state.
type Gen struct {
	W     *World
	M     *Model
	Rng   *rand.Rand
	Wt    Weights
	queue []*Op
	after func() // continuation of a macro, run when the queue is empty
}

func (g *Gen) pct(p int) bool { return g.Rng.Intn(100) < p }

func (g *Gen) pickActor(as []*Actor) *Actor { return as[g.Rng.Intn(len(as))] }

// members lists pool members (sorted by key string) with one of the given statuses (none = all).
func (g *Gen) members(st ...uint8) []*Member {
	var ks []string
	for k := range g.M.Pool {
		ks = append(ks, k)
	}
	sort.Strings(ks)
	var out []*Member
	for _, k := range ks {
		mem := g.M.Pool[k]
		if len(st) == 0 {
			out = append(out, mem)
			continue
		}
		for _, s := range st {
			if mem.Status == s {
				out = append(out, mem)
			}
		}
	}
	return out
}

func (g *Gen) actorOfNode(str string) *Actor { return g.W.nodeByStr[str] }

// anyActor draws from all roles.
func (g *Gen) anyActor() *Actor {
	switch g.Rng.Intn(3) {
	case 0:
		return g.pickActor(g.W.Owners)
	case 1:
		return g.pickActor(g.W.Outsiders)
	}
	return g.pickActor(g.W.Nodes)
}

// reqs lists request keys of a method by state: 1 pending, 0 consumed (applied earlier, not pending).
func (g *Gen) reqs(method string, pending bool) []string {
	var out []string
	for k, rs := range g.M.Reqs {
		if !strings.HasPrefix(k, method+"\x00") {
			continue
		}
		if (pending && rs.Pending == 1) || (!pending && rs.Pending == 0 && rs.Consumed) {
			out = append(out, k[len(method)+1:])
		}
	}
	sort.Strings(out)
	return out
}

// approver picks who approves (method, req) next.
func (g *Gen) approver(method, req string) (*Actor, string) {
	rs := g.M.Lookup(method, req)
	var fresh, again []*Actor
	for _, mem := range g.members(StCons) {
		a := g.actorOfNode(mem.Str)
		if a == nil {
			continue
		}
		if rs != nil && (rs.Sure[a.Addr()] || rs.Maybe[a.Addr()]) {
			again = append(again, a)
		} else {
			fresh = append(fresh, a)
		}
	}
	x := g.Rng.Intn(100)
	switch {
	case x < 58 && len(fresh) > 0:
		return g.pickActor(fresh), "validator"
	case x < 68 && len(again) > 0:
		return g.pickActor(again), "repeat"
	case x < 78:
		return g.pickActor(g.W.Outsiders), "outsider"
	case x < 84:
		return g.pickActor(g.W.Owners), "owner"
	case x < 94:
		var non []*Actor
		for _, a := range g.W.Nodes {
			mem := g.M.Pool[a.Key.PubHex()]
			if mem == nil || mem.Status != StCons {
				non = append(non, a)
			}
		}
		if len(non) > 0 {
			return g.pickActor(non), "non-consensus-node"
		}
	}
	if len(fresh) > 0 {
		return g.pickActor(fresh), "validator"
	}
	return g.pickActor(g.W.Nodes), "node"
}

// target picks the request an approval of the given method addresses.
func (g *Gen) target(method string) (req string, tag string) {
	pend, done := g.reqs(method, true), g.reqs(method, false)
	x := g.Rng.Intn(100)
	switch {
	case x < g.Wt.SecondRound && len(done) > 0:
		return done[g.Rng.Intn(len(done))], "applied-earlier"
	case x < 90 && len(pend) > 0:
		return pend[g.Rng.Intn(len(pend))], "pending"
	}
	if len(pend)+len(done) == 0 && !g.pct(12) {
		return "", ""
	}
	switch approveSpecs[method].family {
	case "node":
		return g.pickActor(g.W.Nodes).Key.PubHex(), "random"
	case "side_chain":
		return fmt.Sprint(g.W.ChainIDs[g.Rng.Intn(len(g.W.ChainIDs))]), "random"
	}
	return fmt.Sprint(g.Rng.Intn(int(g.M.NextID[method]) + 2)), "random"
}

func (g *Gen) approveOp(method, req, tag string) *Op {
	if tag == "" && req == "" {
		return nil
	}
	a, cls := g.approver(method, req)
	o := &Op{Kind: method, Actor: a, Tag: tag + "/" + cls}
	switch method {
	case KApproveCandidate, KWhiteNode:
		o.Node = req
	case KBlackNode:
		o.List = strings.Split(req, "|")
	default:
		id, _ := strconv.ParseUint(req, 10, 64)
		o.ID = id
	}
	return o
}

// Round queues approvals of (method, req) by every consensus validator in random order with
// noise (outsiders, repeats, owners) in between.
func (g *Gen) Round(method, req, tag string, noise bool) []*Op {
	var ops []*Op
	if tag == "round-" {
		return nil
	}
	mk := func(a *Actor, cls string) *Op {
		o := g.approveOp(method, req, tag)
		o.Actor = a
		o.Tag = tag + "/" + cls
		return o
	}
	var vals []*Actor
	for _, mem := range g.members(StCons) {
		if a := g.actorOfNode(mem.Str); a != nil {
			vals = append(vals, a)
		}
	}
	g.Rng.Shuffle(len(vals), func(i, j int) { vals[i], vals[j] = vals[j], vals[i] })
	for i, a := range vals {
		if noise && g.pct(25) {
			ops = append(ops, mk(g.pickActor(g.W.Outsiders), "outsider"))
		}
		if noise && i > 0 && g.pct(20) {
			ops = append(ops, mk(vals[g.Rng.Intn(i)], "repeat"))
		}
		ops = append(ops, mk(a, "validator"))
	}
	return ops
}

var chainNames = []string{"eth", "bsc", "ont", "neo"}

func (g *Gen) chainContent(id uint64, owner *Actor) *ChainRec {
	c := &ChainRec{Owner: owner.Addr(), ID: id, Router: uint64([]int{2, 3, 5, 6}[g.Rng.Intn(4)]), Name: chainNames[g.Rng.Intn(len(chainNames))],
		BTW: uint64(1 + g.Rng.Intn(3)), CCMC: []byte{byte(g.Rng.Intn(4)), 0xcc}}
	if g.pct(50) {
		c.Extra = []byte{byte(g.Rng.Intn(3))}
	}
	return c
}

func (g *Gen) chainOwnerActor(id uint64) *Actor {
	if c := g.M.Chains[id]; c != nil {
		return g.W.ActorOf(c.Owner)
	}
	return nil
}

func (g *Gen) registeredIDs() []uint64 {
	var ids []uint64
	for _, id := range g.W.ChainIDs {
		if g.M.Chains[id] != nil {
			ids = append(ids, id)
		}
	}
	return ids
}

func (g *Gen) addrList(prefRegistered bool) []common.Address {
	n := 1 + g.Rng.Intn(3)
	seen := map[common.Address]bool{}
	var out []common.Address
	for tries := 0; len(out) < n && tries < 20; tries++ {
		a := g.W.RelayerU[g.Rng.Intn(len(g.W.RelayerU))]
		if seen[a] {
			continue
		}
		if prefRegistered && !g.M.Relayers[a] && tries < 12 {
			continue
		}
		seen[a] = true
		out = append(out, a)
	}
	if len(out) == 0 {
		out = append(out, g.W.RelayerU[0])
	}
	return out
}

func (g *Gen) svList(prefRegistered bool) []string {
	n := 1 + g.Rng.Intn(2)
	seen := map[string]bool{}
	var out []string
	for tries := 0; len(out) < n && tries < 20; tries++ {
		s := g.W.SVU[g.Rng.Intn(len(g.W.SVU))]
		if seen[s] {
			continue
		}
		if prefRegistered && !g.M.SVs[s] && tries < 12 {
			continue
		}
		seen[s] = true
		out = append(out, s)
	}
	if len(out) == 0 {
		out = append(out, g.W.SVU[0])
	}
	return out
}

// variant returns a non-canonical spelling of a node key (hostile histories).
func (g *Gen) variant(canon string) string {
	vs := g.W.variants[canon]
	if len(vs) < 2 {
		return canon
	}
	return vs[1+g.Rng.Intn(len(vs)-1)]
}

func (g *Gen) maybeVariant(s string) string {
	if g.Wt.Hostile && g.pct(30) {
		return g.variant(g.W.Canon(s))
	}
	return s
}

type choice struct {
	w int
	f func() *Op
}

// Next returns the next operation (height = current block height of the world).
func (g *Gen) Next(height uint32) *Op {
	if len(g.queue) == 0 && g.after != nil {
		f := g.after
		g.after = nil
		f()
	}
	if len(g.queue) > 0 {
		o := g.queue[0]
		g.queue = g.queue[1:]
		return o
	}
	w := g.Wt
	var cs []choice
	add := func(weight int, f func() *Op) {
		if weight > 0 {
			cs = append(cs, choice{weight, f})
		}
	}
	// ---- node manager
	add(5*w.Node, func() *Op {
		// candidacy request: a key that is not in the pool, by an owner or the node itself
		var free []*Actor
		for _, a := range g.W.Nodes {
			if g.M.Pool[a.Key.PubHex()] == nil {
				free = append(free, a)
			}
		}
		n := g.pickActor(g.W.Nodes)
		tag := "random-key"
		if len(free) > 0 && g.pct(75) {
			n, tag = g.pickActor(free), "free-key"
		}
		owner := g.pickActor(g.W.Owners)
		if g.pct(30) {
			owner = n
		}
		str := n.Key.PubHex()
		if g.Wt.Hostile && g.pct(45) {
			str, tag = g.variant(str), tag+"/variant"
		}
		return &Op{Kind: KRegisterCandidate, Actor: owner, Node: str, Tag: tag}
	})
	add(2*w.Node, func() *Op {
		ps := g.reqs(KApproveCandidate, true)
		if len(ps) == 0 {
			return nil
		}
		req := ps[g.Rng.Intn(len(ps))]
		rs := g.M.Lookup(KApproveCandidate, req)
		who := g.W.ActorOf(rs.P.Cand.Owner)
		if who == nil || g.pct(20) {
			who = g.anyActor()
		}
		return &Op{Kind: KUnRegisterCandidate, Actor: who, Node: g.maybeVariant(req), Tag: "pending"}
	})
	add(12*w.Node, func() *Op {
		req, tag := g.target(KApproveCandidate)
		o := g.approveOp(KApproveCandidate, req, tag)
		if o != nil {
			o.Node = g.maybeVariant(o.Node)
		}
		return o
	})
	add(5*w.Node, func() *Op {
		req, tag := g.target(KApproveCandidate)
		if g.queue = g.Round(KApproveCandidate, g.maybeVariant(req), "round-"+tag, true); len(g.queue) == 0 {
			return nil
		}
		return g.Next(height)
	})
	add(2*w.Node, func() *Op {
		// a member leaves and comes back (second incarnation of its candidacy), leaves again, and the
		// validators then run an approval round for the candidacy that was already applied
		if g.M.active() <= 4 {
			return nil
		}
		ms := g.members(StCand, StCons)
		mem := ms[g.Rng.Intn(len(ms))]
		who := g.W.ActorOf(mem.Owner)
		if who == nil {
			return nil
		}
		k := mem.Str
		epoch := func() []*Op {
			return []*Op{{Kind: KAdvance, Delta: 1}, {Kind: KCommitDpos, OpSig: true, Tag: "operator/returning-cycle"}}
		}
		q := []*Op{{Kind: KQuitNode, Actor: who, Node: k, Tag: "returning-cycle"}}
		q = append(q, epoch()...)
		q = append(q, &Op{Kind: KRegisterCandidate, Actor: who, Node: k, Tag: "returning-key"})
		g.queue = q
		g.after = func() {
			// evaluated when the queue above has run: validators may have changed
			q := g.Round(KApproveCandidate, k, "returning-cycle", false)
			q = append(q, epoch()...)
			q = append(q, &Op{Kind: KQuitNode, Actor: who, Node: k, Tag: "returning-cycle"})
			q = append(q, epoch()...)
			g.queue = q
			g.after = func() { g.queue = g.Round(KApproveCandidate, k, "returning/applied-earlier", true) }
		}
		return g.Next(height)
	})
	add(3*w.Node, func() *Op {
		ms := g.members()
		mem := ms[g.Rng.Intn(len(ms))]
		who := g.W.ActorOf(mem.Owner)
		tag := "by-owner"
		if who == nil || g.pct(20) {
			who, tag = g.anyActor(), "by-other"
		}
		return &Op{Kind: KQuitNode, Actor: who, Node: g.maybeVariant(mem.Str), Tag: tag}
	})
	add(7*w.Node, func() *Op {
		// continue an open blacklisting tally or start a new one
		var open []string
		for k, rs := range g.M.Reqs {
			if strings.HasPrefix(k, KBlackNode+"\x00") && len(rs.Sure)+len(rs.Maybe) > 0 {
				open = append(open, k[len(KBlackNode)+1:])
			}
		}
		sort.Strings(open)
		if len(open) > 0 && g.pct(85) {
			best := open[g.Rng.Intn(len(open))]
			if g.pct(70) {
				for _, k := range open {
					a, b := g.M.Lookup(KBlackNode, k), g.M.Lookup(KBlackNode, best)
					if len(a.Sure)+len(a.Maybe) > len(b.Sure)+len(b.Maybe) {
						best = k
					}
				}
			}
			return g.approveOp(KBlackNode, best, "open-tally")
		}
		if g.M.active() <= 4 && !g.pct(15) {
			return nil
		}
		ms := g.members()
		n := 1
		if g.pct(25) {
			n = 2
		}
		var list []string
		for _, i := range g.Rng.Perm(len(ms)) {
			if len(list) < n {
				list = append(list, g.maybeVariant(ms[i].Str))
			}
		}
		if g.pct(8) {
			list = append(list, g.pickActor(g.W.Nodes).Key.PubHex())
		}
		return g.approveOp(KBlackNode, strings.Join(list, "|"), "new-list")
	})
	add(7*w.Node, func() *Op {
		var bl []string
		for c := range g.M.Black {
			bl = append(bl, c)
		}
		sort.Strings(bl)
		if len(bl) > 0 && g.pct(90) {
			if g.pct(40) {
				if g.queue = g.Round(KWhiteNode, bl[0], "round-blacklisted", true); len(g.queue) > 0 {
					return g.Next(height)
				}
			}
			return g.approveOp(KWhiteNode, g.maybeVariant(bl[0]), "blacklisted")
		}
		if !g.pct(15) {
			return nil
		}
		return g.approveOp(KWhiteNode, g.pickActor(g.W.Nodes).Key.PubHex(), "random")
	})
	add(5*w.Node, func() *Op {
		if height == g.M.ViewHeight && g.pct(70) {
			return &Op{Kind: KAdvance, Delta: 1, Tag: "before-commit"}
		}
		x := g.Rng.Intn(100)
		switch {
		case x < 70:
			return &Op{Kind: KCommitDpos, OpSig: true, Tag: "operator"}
		case x < 85:
			return &Op{Kind: KCommitDpos, NoSig: true, Tag: "nobody"}
		}
		return &Op{Kind: KCommitDpos, Actor: g.pickActor(g.W.Nodes), Tag: "single-node"}
	})
	add(4*(w.Node+1), func() *Op {
		x := g.Rng.Intn(100)
		switch {
		case x < 70:
			return &Op{Kind: KAdvance, Delta: 1}
		case x < 92:
			return &Op{Kind: KAdvance, Delta: uint32(2 + g.Rng.Intn(5))}
		}
		if x >= 99 {
			return &Op{Kind: KAdvance, Delta: 4294967295 - height - uint32(g.Rng.Intn(4)), Tag: "to-the-last-heights"}
		}
		return &Op{Kind: KAdvance, Delta: uint32(95 + g.Rng.Intn(10)), Tag: "epoch-due"}
	})
	// ---- side-chain manager
	add(5*w.SideChain, func() *Op {
		id := g.W.ChainIDs[g.Rng.Intn(len(g.W.ChainIDs))]
		owner := g.pickActor(g.W.Owners)
		if g.pct(15) {
			owner = g.anyActor()
		}
		o := &Op{Kind: KRegisterSideChain, Actor: owner, Chain: g.chainContent(id, owner)}
		if g.pct(6) {
			o.Named = g.pickActor(g.W.Owners)
			o.Chain.Owner = o.Named.Addr()
			o.Tag = "naming-another-address"
		}
		return o
	})
	for _, mth := range []string{KApproveRegisterSC, KApproveUpdateSC, KApproveQuitSC} {
		method := mth
		add(7*w.SideChain, func() *Op { req, tag := g.target(method); return g.approveOp(method, req, tag) })
		add(4*w.SideChain, func() *Op {
			req, tag := g.target(method)
			if g.queue = g.Round(method, req, "round-"+tag, true); len(g.queue) == 0 {
				return nil
			}
			return g.Next(height)
		})
	}
	add(4*w.SideChain, func() *Op {
		ids := g.registeredIDs()
		id := g.W.ChainIDs[g.Rng.Intn(len(g.W.ChainIDs))]
		if len(ids) > 0 && g.pct(85) {
			id = ids[g.Rng.Intn(len(ids))]
		} else if len(ids) == 0 && !g.pct(15) {
			return nil
		}
		who, tag := g.chainOwnerActor(id), "by-owner"
		if who == nil || g.pct(30) {
			who, tag = g.anyActor(), "by-other"
		}
		o := &Op{Kind: KUpdateSideChain, Actor: who, Chain: g.chainContent(id, who), Tag: tag}
		if ow := g.chainOwnerActor(id); ow != nil && ow != who && g.pct(50) {
			o.Named = ow
			o.Chain.Owner = ow.Addr()
			o.Tag = "by-other-naming-owner"
		}
		return o
	})
	add(3*w.SideChain, func() *Op {
		ids := g.registeredIDs()
		id := g.W.ChainIDs[g.Rng.Intn(len(g.W.ChainIDs))]
		if len(ids) > 0 && g.pct(85) {
			id = ids[g.Rng.Intn(len(ids))]
		} else if len(ids) == 0 && !g.pct(15) {
			return nil
		}
		who, tag := g.chainOwnerActor(id), "by-owner"
		if who == nil || g.pct(30) {
			who, tag = g.anyActor(), "by-other"
		}
		o := &Op{Kind: KQuitSideChain, Actor: who, ID: id, Tag: tag}
		if ow := g.chainOwnerActor(id); ow != nil && ow != who && g.pct(50) {
			o.Named = ow
			o.Tag = "by-other-naming-owner"
		}
		return o
	})
	// ---- relayer manager
	add(4*w.Relayer, func() *Op { return &Op{Kind: KRegisterRelayer, Actor: g.anyActor(), Addrs: g.addrList(false)} })
	add(3*w.Relayer, func() *Op { return &Op{Kind: KRemoveRelayer, Actor: g.anyActor(), Addrs: g.addrList(true)} })
	for _, mth := range []string{KApproveRegRelayer, KApproveRemRelayer} {
		method := mth
		add(7*w.Relayer, func() *Op { req, tag := g.target(method); return g.approveOp(method, req, tag) })
		add(4*w.Relayer, func() *Op {
			req, tag := g.target(method)
			if g.queue = g.Round(method, req, "round-"+tag, true); len(g.queue) == 0 {
				return nil
			}
			return g.Next(height)
		})
	}
	// ---- neo3 state manager
	add(4*w.Neo3, func() *Op { return &Op{Kind: KRegisterSV, Actor: g.anyActor(), List: g.svList(false)} })
	add(3*w.Neo3, func() *Op { return &Op{Kind: KRemoveSV, Actor: g.anyActor(), List: g.svList(true)} })
	for _, mth := range []string{KApproveRegSV, KApproveRemSV} {
		method := mth
		add(7*w.Neo3, func() *Op { req, tag := g.target(method); return g.approveOp(method, req, tag) })
		add(4*w.Neo3, func() *Op {
			req, tag := g.target(method)
			if g.queue = g.Round(method, req, "round-"+tag, true); len(g.queue) == 0 {
				return nil
			}
			return g.Next(height)
		})
	}
	total := 0
	for _, c := range cs {
		total += c.w
	}
	for tries := 0; tries < 50; tries++ {
		x := g.Rng.Intn(total)
		for _, c := range cs {
			if x < c.w {
				if o := c.f(); o != nil {
					return o
				}
				break
			}
			x -= c.w
		}
	}
	return &Op{Kind: KAdvance, Delta: 1}
}
