// C29: PoSA (Parlia / Congress) light clients store only headers sealed by an eligible validator
// of the set in effect, with the right in-turn difficulty and well-formed fixed fields, and follow
// the highest total difficulty.
//
// Model-based monitor: an honest chain simulator (ethsynth.PoSAChain, written from the Parlia and
// Congress consensus rules) produces chains and single-rule mutants; every header goes through the
// real header_sync contract of each router; after every call the contract storage is compared with
// the model and the fork-choice invariants are asserted.
package c29

import (
	"fmt"
	"math/big"
	"math/rand"
	"sort"
	"testing"

	"verifharness/kit"
	es "verifharness/synth/ethsynth"
)

const sealChainID = 56

type trial struct {
	r       *kit.Run
	rng     *rand.Rand
	f       *es.Flavor
	e       *es.Env
	chainID uint64
	c       *es.PoSAChain
	nodes   []*es.PNode           // stored according to the model (root first)
	byHash  map[es.Hash]*es.PNode // model-stored
	genesis []byte
	log     []string // replay: every submitted header JSON in order
}

func TestC29(t *testing.T) {
	r := kit.Start(t, "C29", "exploration")
	defer r.Finish()
	r.Rule("per router (bsc, heco, hsc, pixie, bytom; msc = Clique with a fixed signer set): honest PoSA chains over validator sets of 1..7 (..21 thorough) keys with epoch headers announcing changed sets (Parlia N/2 activation delay for bsc/bytom, immediate for the Congress family), in-turn / out-of-turn sealers, forks of lower / equal / higher total difficulty; before most honest headers one single-rule mutant of it is submitted (non-member sealer, sealer inside the recent window, wrong turn difficulty, difficulty outside {1,2}, short vanity/seal, validator bytes not a multiple of 20, non-zero mix digest, non-empty uncle hash, unknown parent, wrong number, coinbase != sealer, corrupted seal, wrong seal chain id; plus directed recent-signer mutants at the far edge of the window in the blocks after every announcement, with sets that shrink to half / double at epochs and a trust root whose previous set is larger or smaller than the announced one); distinct = (router, set sizes, mutant kind, position relative to epoch) fingerprint")
	r.Assume("the validator set in effect and the recent-signer window are those of Parlia (BSC, Bytom side chain: set announced at epoch block e rules blocks n with n-e > len(previous set)/2; window = len(set in effect)/2 blocks) and Congress (HECO, HSC, Pixie: set rules from e+1); the trust root's coinbase counts as the sealer of the trust root")
	r.Assume("rules outside the property statement (gas-limit bound, gasUsed<=gasLimit, block period, validator list off the epoch height or inside the post-epoch window) are exercised and recorded per router but not asserted in either direction")
	r.Assume("completeness is asserted only for headers that break no rule of the real chains at all (honest headers)")
	r.Assume("synthetic timestamps lie years in the past, which keeps the routers' wall-clock future-block check neutral")

	maxV := r.N(7, 21)
	perV := r.N(2, 6)
	covered := []string{}
	flavors := append(append([]*es.Flavor{}, es.PoSAFlavors...), es.PoSAFlavorsB...)
	for _, f := range flavors {
		e := es.NewEnv(r.Rand("env/"+f.Name), 3)
		n := 0
		for v := 1; v <= maxV; v++ {
			for k := 0; k < perV; k++ {
				rng := r.Rand(fmt.Sprintf("%s/%d/%d", f.Name, v, k))
				tr := &trial{r: r, rng: rng, f: f, e: e, chainID: uint64(100 + n), byHash: map[es.Hash]*es.PNode{}}
				n++
				tr.run(v)
				if r.Violations() > 12 {
					return
				}
			}
		}
		covered = append(covered, f.Name)
		r.Require(f.Name+":recent_far_edge_mutants", maxV*perV)
		if f.DelayedActivation {
			// Parlia: the old set keeps ruling the first len(old)/2 blocks after the epoch header
			r.Require(f.Name+":recent_far_edge_in_shrinking_transition", 2)
			r.Require(f.Name+":recent_far_edge_in_growing_transition", 2)
		}
		for _, k := range []string{"honest_stored", "refused:sealer-not-in-validator-set", "refused:sealed-within-recent-window", "refused:difficulty-does-not-match-turn",
			"refused:extra-too-short", "refused:validator-bytes-not-multiple-of-20", "refused:non-zero-mix-digest", "refused:non-empty-uncle-hash", "refused:coinbase-is-not-the-sealer",
			"unknown_parent_not_stored", "epoch_headers_stored", "reorgs", "out_of_turn_stored", "in_turn_stored"} {
			min := 1
			if f.Clique && k == "refused:coinbase-is-not-the-sealer" {
				continue // in Clique the beneficiary is a vote target, not the sealer
			}
			if k == "honest_stored" {
				min = maxV * perV * 20
			}
			r.Require(f.Name+":"+k, min)
		}
	}
	r.Set("routers_covered", covered)
	r.Set("routers_uncovered", []string{"polygon bor (tier B: spans / snapshots, not synthesized)", "msc signer votes (the Clique simulator casts no votes: the signer set is fixed)"})
}

func (t *trial) key(s string) string { return "router:" + t.f.Name + " " + s }

func (t *trial) replay(extra interface{}) interface{} {
	return map[string]interface{}{"router": t.f.Name, "sealChainID": sealChainID, "extraInfo": string(t.f.ExtraInfoJSONEpoch(sealChainID, t.c.Epoch)), "genesis": string(t.genesis), "submitted": t.log, "failing": extra}
}

func (t *trial) run(v int) {
	r, rng, f, e := t.r, t.rng, t.f, t.e
	v0 := 1 + rng.Intn(v)
	switch rng.Intn(3) {
	case 0:
		v0 = v
	case 1:
		v0 = v + 1 + rng.Intn(v) // the trust root announces a SMALLER set than the one before it
	}
	c, gen := es.NewPoSAChain(rng, f, sealChainID, v0, v, maxInt(v, v0), 5000000)
	t.c, t.genesis = c, gen
	ccmc := make([]byte, 20)
	if err := e.RegisterSideChain(t.chainID, f.Router, f.Name, 1, ccmc, f.ExtraInfoJSONEpoch(sealChainID, c.Epoch)); err != nil {
		r.Inconclusive("register: " + err.Error())
		return
	}
	if rec := e.SyncGenesis(t.chainID, gen); !rec.Ok {
		r.Violation(t.key("genesis-refused"), rec.Err, t.replay(nil))
		return
	}
	root := c.M.Root
	t.nodes = []*es.PNode{root}
	t.byHash[root.Hash] = root
	if !t.monitor("genesis") {
		return
	}
	tip := root
	var side *es.PNode
	blocks := int(4*c.Epoch) + 6 + rng.Intn(8)
	for i := 0; i < blocks; i++ {
		parent := tip
		switch {
		case side != nil && t.byHash[side.Hash] != nil && rng.Intn(4) != 0:
			parent = side // keep growing the competing branch until it overtakes
		case i > 2 && rng.Intn(6) == 0:
			parent = t.nodes[rng.Intn(len(t.nodes))] // fork somewhere
		case i > 2 && side == nil && rng.Intn(6) == 0:
			parent = tip // start a competing branch 1-3 blocks behind the head
			for k := 1 + rng.Intn(3); k > 0 && parent.Parent != nil; k-- {
				parent = parent.Parent
			}
			side = parent
		}
		onSide := side != nil && parent == side
		honest := c.Next(rng, parent, es.HonestOpt{})
		if honest == nil {
			r.Inconclusive("no eligible sealer in the honest simulator")
			return
		}
		// directed: in the blocks right after an announcement (where the set in effect and the
		// newest set may differ in size) always try the recent-signer mutants, far edge first
		if e1, _, _ := c.M.Epochs(parent); parent.H.Number+1-e1 <= uint64(c.MaxV/2+2) {
			if !t.mutantKind(parent, honest, "recent-far-edge") {
				return
			}
			if rng.Intn(2) == 0 && !t.mutantKind(parent, honest, "recent") {
				return
			}
		}
		// a mutant of the honest header first
		if rng.Intn(10) < 7 {
			if !t.mutant(parent, honest) {
				return
			}
		}
		// occasionally offer an orphan (child before parent): must not be stored
		if rng.Intn(6) == 0 {
			fake := c.M.Add(parent, honest)
			orphan := c.Next(rng, fake, es.HonestOpt{})
			if orphan != nil {
				if !t.submit([]*es.Hdr{orphan}, []*es.PNode{nil}, "orphan") {
					return
				}
			}
		}
		reasons, outside := c.M.Judge(parent, honest)
		if len(reasons) != 0 {
			r.Inconclusive(fmt.Sprintf("simulator produced a header its own oracle rejects: %v", reasons))
			return
		}
		before := t.headTD()
		hs, ps := []*es.Hdr{honest}, []*es.PNode{parent}
		if rng.Intn(5) == 0 && parent != root {
			hs, ps = []*es.Hdr{parent.H, honest}, []*es.PNode{parent.Parent, parent} // batch with a duplicate in front
		}
		kind := "honest"
		if len(outside) > 0 {
			kind = "outside:" + outside[0]
		}
		if !t.submit(hs, ps, kind) {
			return
		}
		if n := t.byHash[honest.Hash()]; n != nil {
			if len(n.Announce) > 0 {
				r.Count(f.Name+":epoch_headers_stored", 1)
			}
			if honest.Difficulty.Int64() == 2 {
				r.Count(f.Name+":in_turn_stored", 1)
			} else {
				r.Count(f.Name+":out_of_turn_stored", 1)
			}
			if n.TD.Cmp(before) > 0 {
				if parent != tip {
					r.Count(f.Name+":reorgs", 1)
				}
			} else if parent != tip {
				r.Count(f.Name+":fork_not_adopted", 1)
			}
			r.Distinct(f.Name, len(c.M.InEffect(parent)), "honest", honest.Number%c.Epoch, honest.Difficulty.Int64(), parent != tip)
		}
		if n := t.byHash[honest.Hash()]; n != nil && onSide {
			side = n
		}
		// continue from whatever the contract considers the head
		if head, index, ok := e.Canon(t.chainID); ok && t.byHash[index[head]] != nil {
			tip = t.byHash[index[head]]
		}
		if side != nil && (tip == side || tip.H.Number > side.H.Number+4) {
			side = nil // overtook, or fell hopelessly behind
		}
	}
	// directed: the sealer of the most recent epoch header seals a block and then immediately the
	// next one (inside the recent window whenever the set has >= 2 validators)
	if !t.epochSealerTwice(tip) {
		return
	}
	// duplicates: resubmitting everything changes nothing
	d0 := e.HSDigestChain(t.chainID)
	var all [][]byte
	for _, n := range t.nodes[1:] {
		all = append(all, n.JSON)
	}
	for i := 0; i < len(all); i += 7 {
		j := i + 7
		if j > len(all) {
			j = len(all)
		}
		e.SyncHeaders(t.chainID, all[i:j]...)
		r.Eval(1)
	}
	if e.HSDigestChain(t.chainID) != d0 {
		r.Violation(t.key("resubmission-changed-state"), "resubmitting all stored headers changed the contract storage", t.replay(nil))
	} else {
		r.Count(f.Name+":resubmission_no_change", 1)
	}
}

func (t *trial) epochSealerTwice(tip *es.PNode) bool {
	c, rng := t.c, t.rng
	var x *es.Addr
	for p := tip; p != nil; p = p.Parent {
		if len(p.Announce) > 0 {
			a := p.Sealer
			x = &a
			break
		}
	}
	if x == nil || c.Keys[*x] == nil {
		return true
	}
	// walk forward with honest blocks until x may seal (at most a few steps), avoiding epoch heights
	cur := tip
	for i := 0; i < 2*c.MaxV+2; i++ {
		first := c.Next(rng, cur, es.HonestOpt{Sealer: x})
		if first != nil && len(c.M.InEffect(cur)) >= 2 {
			if !t.submit([]*es.Hdr{first}, []*es.PNode{cur}, "directed:epoch-sealer-first") {
				return false
			}
			n1 := t.byHash[first.Hash()]
			if n1 == nil {
				return true
			}
			set := c.M.InEffect(n1)
			if len(set) < 2 || !c.M.RecentlySealed(n1, *x, len(set)) {
				return true
			}
			// second block by the same sealer: build honestly with another sealer, then re-seal as x
			h := c.Next(rng, n1, es.HonestOpt{})
			if h == nil {
				return true
			}
			if !t.f.Clique {
				h.Coinbase = [20]byte(*x)
			}
			h.Difficulty = big.NewInt(1)
			if set[h.Number%uint64(len(set))] == *x {
				h.Difficulty = big.NewInt(2)
			}
			t.f.Seal(h, c.Keys[*x], sealChainID)
			t.r.Count(t.f.Name+":directed_epoch_sealer_twice", 1)
			return t.submit([]*es.Hdr{h}, []*es.PNode{n1}, "directed:epoch-sealer-twice")
		}
		nx := c.Next(rng, cur, es.HonestOpt{})
		if nx == nil {
			return true
		}
		if !t.submit([]*es.Hdr{nx}, []*es.PNode{cur}, "directed:advance") {
			return false
		}
		if t.byHash[nx.Hash()] == nil {
			return true
		}
		cur = t.byHash[nx.Hash()]
	}
	return true
}

func maxInt(a, b int) int {
	if a > b {
		return a
	}
	return b
}

func (t *trial) headTD() *big.Int {
	best := new(big.Int)
	for _, n := range t.nodes {
		if n.TD.Cmp(best) > 0 {
			best = n.TD
		}
	}
	return best
}

// submit sends headers in one call. parents[i] is the model node the i-th header extends (nil =
// unknown parent). It then judges every header with the model, compares with what the contract
// stored, and runs the invariant monitor.
func (t *trial) submit(hs []*es.Hdr, parents []*es.PNode, kind string) bool {
	r, e, f := t.r, t.e, t.f
	var payload [][]byte
	for _, h := range hs {
		j := h.JSON()
		payload = append(payload, j)
		t.log = append(t.log, string(j))
	}
	before := e.HSDigestChain(t.chainID)
	rec := e.SyncHeaders(t.chainID, payload...)
	after := e.HSDigestChain(t.chainID)
	r.Eval(1)
	if rec.Panic != nil {
		r.Violation(t.key("sync-panics:"+kind), fmt.Sprint(rec.Panic), t.replay(string(payload[len(payload)-1])))
		return false
	}
	obs, err := e.Stored(t.chainID)
	if err != nil {
		r.Violation(t.key("storage-undecodable"), err.Error(), t.replay(nil))
		return false
	}
	for i, h := range hs {
		hash := h.Hash()
		_, isStored := obs[hash]
		if t.byHash[hash] != nil {
			continue // a duplicate of a known header
		}
		p := parents[i]
		if p == nil || t.byHash[p.Hash] == nil {
			if isStored {
				r.Violation(t.key("stored-without-parent"), fmt.Sprintf("%s: header %d stored although its parent is not", kind, h.Number), t.replay(string(payload[i])))
				return false
			}
			r.Count(f.Name+":unknown_parent_not_stored", 1)
			continue
		}
		reasons, outside := t.c.M.Judge(p, h)
		switch {
		case len(reasons) > 0:
			if isStored {
				r.Violation(t.key("stored-despite:"+reasons[0]), fmt.Sprintf("%s: header %d stored although %v (set in effect %d validators)", kind, h.Number, reasons, len(t.c.M.InEffect(p))), t.replay(string(payload[i])))
				return false
			}
			if before != after {
				r.Violation(t.key("refused-header-changed-state"), fmt.Sprintf("%s: %v", kind, reasons), t.replay(string(payload[i])))
				return false
			}
			r.Count(f.Name+":refused:"+reasons[0], 1)
			if r.Get(f.Name+":refused:"+reasons[0]) == 1 && f.Name == "bsc" && (reasons[0] == "sealed-within-recent-window" || reasons[0] == "difficulty-does-not-match-turn") {
				r.Sample(map[string]interface{}{"router": f.Name, "kind": kind, "refusedBecause": reasons, "validatorsInEffect": len(t.c.M.InEffect(p)), "header": string(payload[i])})
			}
		case len(outside) > 0:
			// not asserted; keep the model in step with what the contract did
			if isStored {
				r.Count(f.Name+":outside:"+outside[0]+":stored", 1)
				t.add(p, h)
			} else {
				r.Count(f.Name+":outside:"+outside[0]+":refused", 1)
			}
		default:
			if !isStored {
				r.Violation(t.key("honest-header-refused"), fmt.Sprintf("%s: header %d (difficulty %v, sealer in a set of %d) was not stored: ok=%v err=%s", kind, h.Number, h.Difficulty, len(t.c.M.InEffect(p)), rec.Ok, rec.Err), t.replay(string(payload[i])))
				return false
			}
			t.add(p, h)
			r.Count(f.Name+":honest_stored", 1)
			if r.Get(f.Name+":honest_stored") == 30 {
				r.Sample(map[string]interface{}{"router": f.Name, "kind": "honest header stored", "number": h.Number, "difficulty": h.Difficulty.Int64(), "validatorsInEffect": len(t.c.M.InEffect(p)), "epochLength": t.c.Epoch})
			}
		}
	}
	return t.monitor(kind)
}

func (t *trial) add(p *es.PNode, h *es.Hdr) {
	n := t.c.M.Add(p, h)
	t.nodes = append(t.nodes, n)
	t.byHash[n.Hash] = n
}

// monitor: stored set == model set, C27-style invariants, head carries the maximal total difficulty.
func (t *trial) monitor(kind string) bool {
	r, e := t.r, t.e
	obs, err := e.Stored(t.chainID)
	if err != nil {
		r.Violation(t.key("storage-undecodable"), err.Error(), t.replay(nil))
		return false
	}
	if len(obs) != len(t.nodes) {
		var extra []string
		for h, s := range obs {
			if t.byHash[h] == nil {
				extra = append(extra, fmt.Sprintf("%d:%x", s.Number, h[:6]))
			}
		}
		sort.Strings(extra)
		r.Violation(t.key("stored-set-differs-from-model"), fmt.Sprintf("after %s: contract holds %d headers, model %d; unexpected %v", kind, len(obs), len(t.nodes), extra), t.replay(nil))
		return false
	}
	for _, n := range t.nodes {
		o := obs[n.Hash]
		if o == nil {
			r.Violation(t.key("stored-set-differs-from-model"), fmt.Sprintf("after %s: header %d missing (or stored under a different hash)", kind, n.H.Number), t.replay(nil))
			return false
		}
		if o.TD.Cmp(n.TD) != 0 {
			r.Violation(t.key("td-differs-from-model"), fmt.Sprintf("header %d td %v model %v", n.H.Number, o.TD, n.TD), t.replay(nil))
			return false
		}
	}
	head, index, ok := e.Canon(t.chainID)
	if !ok {
		r.Violation(t.key("canon-unreadable"), "cannot read canonical index", t.replay(nil))
		return false
	}
	good := true
	for _, b := range es.CheckChainInvariants(obs, head, index, t.c.M.Root.Hash) {
		k := b
		for i := 0; i < len(b); i++ {
			if b[i] == ':' {
				k = b[:i]
				break
			}
		}
		r.Violation(t.key(k), "after "+kind+": "+b, t.replay(nil))
		good = false
	}
	if hn := t.byHash[index[head]]; hn != nil && hn.TD.Cmp(t.headTD()) != 0 {
		r.Violation(t.key("head-not-heaviest"), fmt.Sprintf("after %s: head td %v, heaviest stored %v", kind, hn.TD, t.headTD()), t.replay(nil))
		good = false
	}
	return good
}

// mutant derives one rule-breaking variant of the honest header and submits it.
func (t *trial) mutant(parent *es.PNode, honest *es.Hdr) bool {
	return t.mutantKind(parent, honest, "")
}

// mutantKind derives the given kind of mutant ("" = random kind).
func (t *trial) mutantKind(parent *es.PNode, honest *es.Hdr, forced string) bool {
	rng, c, f := t.rng, t.c, t.f
	m := c.M
	set := m.InEffect(parent)
	h := honest.Copy()
	sealer, _ := f.Sealer(honest, sealChainID)
	reseal := func(a es.Addr) { f.Seal(h, c.Keys[a], sealChainID) }
	turnDiff := func(a es.Addr) *big.Int {
		if set[h.Number%uint64(len(set))] == a {
			return big.NewInt(2)
		}
		return big.NewInt(1)
	}
	kinds := []string{"non-member", "recent", "flip-difficulty", "difficulty-range", "short-extra", "validator-bytes", "mix-digest", "uncle-hash", "unknown-parent",
		"wrong-number", "coinbase", "corrupt-seal", "seal-chain-id", "gas-limit-jump", "gas-used", "period", "off-epoch-announcement", "window-announcement"}
	kind := kinds[rng.Intn(len(kinds))]
	if forced != "" {
		kind = forced
	}
	parents := []*es.PNode{parent}
	// a set-size transition: the set in effect differs in size from the most recently announced one
	_, newest, _ := m.Epochs(parent)
	transition := ""
	if len(set) > len(newest) {
		transition = "shrinking"
	} else if len(set) < len(newest) {
		transition = "growing"
	}
	switch kind {
	case "non-member":
		var out []es.Addr
		for _, v := range c.Pool {
			found := false
			for _, a := range set {
				if a == v.Addr {
					found = true
				}
			}
			if !found {
				out = append(out, v.Addr)
			}
		}
		a := out[rng.Intn(len(out))]
		h.Coinbase = [20]byte(a)
		h.Difficulty = big.NewInt(int64(1 + rng.Intn(2)))
		reseal(a)
	case "recent":
		var rec []es.Addr
		for _, a := range set {
			if m.RecentlySealed(parent, a, len(set)) && c.Keys[a] != nil {
				rec = append(rec, a)
			}
		}
		if len(rec) == 0 {
			return true
		}
		a := rec[rng.Intn(len(rec))]
		if !f.Clique {
			h.Coinbase = [20]byte(a)
		}
		h.Difficulty = turnDiff(a)
		reseal(a)
		if transition != "" {
			t.r.Count(f.Name+":recent_mutants_in_"+transition+"_transition", 1)
		}
	case "recent-far-edge":
		// the sealer of the block exactly len(set)/2 blocks back: the far edge of the recent window
		w := uint64(len(set) / 2)
		if w == 0 {
			return true
		}
		var a *es.Addr
		for p := parent; p != nil; p = p.Parent {
			if p.H.Number+w == h.Number {
				x := p.Sealer
				a = &x
				break
			}
		}
		if a == nil || c.Keys[*a] == nil {
			return true
		}
		in := false
		for _, x := range set {
			if x == *a {
				in = true
			}
		}
		if !in {
			return true
		}
		if !f.Clique {
			h.Coinbase = [20]byte(*a)
		}
		h.Difficulty = turnDiff(*a)
		reseal(*a)
		t.r.Count(f.Name+":recent_far_edge_mutants", 1)
		if transition != "" {
			t.r.Count(f.Name+":recent_far_edge_in_"+transition+"_transition", 1)
		}
	case "flip-difficulty":
		h.Difficulty = big.NewInt(3 - h.Difficulty.Int64())
		reseal(sealer)
	case "difficulty-range":
		h.Difficulty = big.NewInt([]int64{0, 3, 4, 1000}[rng.Intn(4)])
		reseal(sealer)
	case "short-extra":
		switch rng.Intn(3) {
		case 0:
			h.Extra = h.Extra[:es.ExtraVanity+es.ExtraSeal-1] // seal one byte short
		case 1:
			h.Extra = h.Extra[:rng.Intn(es.ExtraVanity)]
		default:
			h.Extra = h.Extra[len(h.Extra)-es.ExtraSeal:] // seal only, no vanity
		}
	case "validator-bytes":
		junk := make([]byte, 1+rng.Intn(19))
		rng.Read(junk)
		ex := append([]byte{}, h.Extra[:len(h.Extra)-es.ExtraSeal]...)
		ex = append(ex, junk...)
		h.Extra = append(ex, make([]byte, es.ExtraSeal)...)
		reseal(sealer)
	case "mix-digest":
		h.MixDigest = es.RandHash(rng)
		reseal(sealer)
	case "uncle-hash":
		h.UncleHash = es.RandHash(rng)
		reseal(sealer)
	case "unknown-parent":
		h.ParentHash = es.RandHash(rng)
		reseal(sealer)
		parents = []*es.PNode{nil}
	case "wrong-number":
		h.Number += uint64(1 + rng.Intn(3))
		reseal(sealer)
	case "coinbase":
		if len(set) < 2 || f.Clique { // Clique: a non-zero beneficiary is a vote, which this simulator does not model
			return true
		}
		for {
			a := set[rng.Intn(len(set))]
			if a != sealer {
				h.Coinbase = [20]byte(a)
				break
			}
		}
		reseal(sealer)
	case "corrupt-seal":
		h.Extra[len(h.Extra)-es.ExtraSeal+rng.Intn(64)] ^= byte(1 + rng.Intn(255))
	case "seal-chain-id":
		if !f.SealChainID {
			return true
		}
		f.Seal(h, c.Keys[sealer], sealChainID+1)
	case "gas-limit-jump":
		h.GasLimit = parent.H.GasLimit + parent.H.GasLimit/uint64(2+rng.Intn(200))
		reseal(sealer)
	case "gas-used":
		h.GasUsed = h.GasLimit + 1
		reseal(sealer)
	case "period":
		h.Time = parent.H.Time + uint64(rng.Intn(3)) // 0, 1 or 2 seconds after the parent
		reseal(sealer)
	case "off-epoch-announcement":
		if h.Number%c.Epoch == 0 || m.InAnnounceWindow(parent) {
			return true
		}
		h.Extra = es.MakeExtra(rng, c.NextSet(rng, set))
		reseal(sealer)
	case "window-announcement":
		if !m.InAnnounceWindow(parent) || f.Clique {
			return true
		}
		h.Extra = es.MakeExtra(rng, c.NextSet(rng, set))
		reseal(sealer)
	}
	t.r.Distinct(f.Name, len(set), len(newest), kind, h.Number%c.Epoch, m.F.DelayedActivation && m.InAnnounceWindow(parent))
	return t.submit([]*es.Hdr{h}, parents, "mutant:"+kind)
}
