package ccmsynth

import (
	"bytes"
	"encoding/binary"
	"fmt"
	"math/rand"
	"time"

	"github.com/btcsuite/btcd/btcec"
	"github.com/btcsuite/btcd/chaincfg"
	"github.com/btcsuite/btcd/chaincfg/chainhash"
	"github.com/btcsuite/btcd/txscript"
	"github.com/btcsuite/btcd/wire"
	"github.com/btcsuite/btcutil"
	bchhash "github.com/gcash/bchd/chaincfg/chainhash"
	wirebch "github.com/gcash/bchd/wire"

	"github.com/polynetwork/poly/common"
	ccmbtc "github.com/polynetwork/poly/native/service/cross_chain_manager/btc"
	"github.com/polynetwork/poly/native/service/governance/side_chain_manager"
	"github.com/polynetwork/poly/native/service/utils"

	"verifharness/kit/nat"
	"verifharness/kit/pk"
)

// BTCSource is a Bitcoin source chain inside a World with ONE confirmed deposit: the chain is
// registered through side_chain_manager, its m-of-n vault (redeem script) is bound to a target
// contract through the real registerRedeem call (signed by the vault keys), and its trust root
// (header-sync genesis, operator-signed) is a block whose only transaction is the deposit, so the
// Merkle proof is the one-leaf partial tree. The deposit's input carries witness data, so the same
// transaction has several serialisations (with witness, witness stripped, other witness bytes)
// that all have the same transaction id.
type BTCSource struct {
	Spec   ChainSpec
	Target uint64
	Tx     *wire.MsgTx
	Proof  []byte
	Height uint32
	w      *World
}

// NewBTCSource builds and installs such a chain (id) with a deposit towards target.
func (w *World) NewBTCSource(rng *rand.Rand, id, target uint64) (*BTCSource, error) {
	s := &BTCSource{w: w, Target: target, Height: 600000 + uint32(rng.Intn(100000))}
	net := make([]byte, 8)
	binary.LittleEndian.PutUint64(net, uint64(utils.TyTestnet3))
	s.Spec = ChainSpec{ID: id, Router: utils.BTC_ROUTER, Name: "btc", BlocksToWait: 1, CCMC: net}
	if err := w.RegisterAndApprove(s.Spec); err != nil {
		return nil, err
	}
	// vault: m-of-n multisig redeem script
	n := 3
	m := 2
	var privs []*btcec.PrivateKey
	var addrs []*btcutil.AddressPubKey
	for i := 0; i < n; i++ {
		d := make([]byte, 32)
		rng.Read(d)
		d[0] = byte(i + 1)
		priv, pub := btcec.PrivKeyFromBytes(btcec.S256(), d)
		a, err := btcutil.NewAddressPubKey(pub.SerializeCompressed(), &chaincfg.TestNet3Params)
		if err != nil {
			return nil, err
		}
		privs = append(privs, priv)
		addrs = append(addrs, a)
	}
	redeem, err := txscript.MultiSigScript(addrs, m)
	if err != nil {
		return nil, err
	}
	contract := make([]byte, 20)
	rng.Read(contract)
	p := &side_chain_manager.RegisterRedeemParam{RedeemChainID: id, ContractChainID: target, Redeem: redeem, CVersion: 0, ContractAddress: contract}
	msg := append([]byte{}, redeem...)
	msg = append(msg, U64(id)...)
	msg = append(msg, contract...)
	msg = append(msg, U64(target)...)
	msg = append(msg, U64(0)...)
	for _, k := range privs {
		sig, err := k.Sign(btcutil.Hash160(msg))
		if err != nil {
			return nil, err
		}
		p.Signs = append(p.Signs, sig.Serialize())
	}
	sink := common.NewZeroCopySink(nil)
	p.Serialization(sink)
	if rec := w.E.CallAs(utils.SideChainManagerContractAddress, side_chain_manager.REGISTER_REDEEM, sink.Bytes()); !rec.Ok {
		return nil, fmt.Errorf("registerRedeem: %s", rec.Err)
	}
	// the deposit: input with witness, output 0 pays the vault (P2SH), output 1 carries the cross-chain arguments
	redeemHash := btcutil.Hash160(redeem)
	mtx := wire.NewMsgTx(wire.TxVersion)
	var prev chainhash.Hash
	rng.Read(prev[:])
	in := wire.NewTxIn(wire.NewOutPoint(&prev, uint32(rng.Intn(3))), nil, nil)
	w1, w2 := make([]byte, 71), make([]byte, 33)
	rng.Read(w1)
	rng.Read(w2)
	in.Witness = wire.TxWitness{w1, w2}
	mtx.AddTxIn(in)
	p2sh := append(append([]byte{txscript.OP_HASH160, 0x14}, redeemHash...), txscript.OP_EQUAL)
	mtx.AddTxOut(wire.NewTxOut(100000+int64(rng.Intn(900000)), p2sh))
	to := make([]byte, 20)
	rng.Read(to)
	args := &ccmbtc.Args{ToChainID: target, Fee: int64(1000 + rng.Intn(1000)), Address: to}
	as := common.NewZeroCopySink(nil)
	args.Serialization(as)
	data := append([]byte{ccmbtc.OP_RETURN_SCRIPT_FLAG}, as.Bytes()...)
	mtx.AddTxOut(wire.NewTxOut(0, append([]byte{txscript.OP_RETURN, byte(len(data))}, data...)))
	s.Tx = mtx
	txid := mtx.TxHash()
	// trust root: a header whose Merkle root is the deposit's id (single-transaction block)
	ts := time.Unix(1600000000+int64(rng.Intn(1000000)), 0)
	hdr := wire.BlockHeader{Version: 2, MerkleRoot: txid, Timestamp: ts, Bits: 0x1d00ffff}
	rng.Read(hdr.PrevBlock[:])
	var hb bytes.Buffer
	if err := hdr.BtcEncode(&hb, wire.ProtocolVersion, wire.LatestEncoding); err != nil {
		return nil, err
	}
	var h4 [4]byte
	binary.BigEndian.PutUint32(h4[:], s.Height)
	gs := common.NewZeroCopySink(nil)
	gs.WriteUint64(id)
	gs.WriteVarBytes(append(hb.Bytes(), h4[:]...))
	if rec := w.E.Call(utils.HeaderSyncContractAddress, "syncGenesisHeader", gs.Bytes(), nat.Operator(w.Vals)); !rec.Ok {
		return nil, fmt.Errorf("btc genesis: %s", rec.Err)
	}
	var idh, prevh bchhash.Hash
	copy(idh[:], txid[:])
	copy(prevh[:], hdr.PrevBlock[:])
	mb := wirebch.MsgMerkleBlock{Header: wirebch.BlockHeader{Version: 2, PrevBlock: prevh, MerkleRoot: idh, Timestamp: ts, Bits: 0x1d00ffff},
		Transactions: 1, Hashes: []*bchhash.Hash{&idh}, Flags: []byte{0x01}}
	var pb bytes.Buffer
	if err := mb.BchEncode(&pb, wirebch.ProtocolVersion, wirebch.LatestEncoding); err != nil {
		return nil, err
	}
	s.Proof = pb.Bytes()
	return s, nil
}

// TxID is the deposit's transaction id (double SHA-256 of the witness-free serialisation).
func (s *BTCSource) TxID() []byte { h := s.Tx.TxHash(); return append([]byte{}, h[:]...) }

func encodeTx(mtx *wire.MsgTx, enc wire.MessageEncoding) []byte {
	var buf bytes.Buffer
	if err := mtx.BtcEncode(&buf, wire.ProtocolVersion, enc); err != nil {
		panic(err)
	}
	return buf.Bytes()
}

// Encodings returns three serialisations of the same transaction (same id): with its witness,
// with the witness stripped, and with other witness bytes.
func (s *BTCSource) Encodings(rng *rand.Rand) (withWitness, stripped, otherWitness []byte) {
	other := s.Tx.Copy()
	x := make([]byte, 1+rng.Intn(40))
	rng.Read(x)
	other.TxIn[0].Witness = wire.TxWitness{x}
	if other.TxHash() != s.Tx.TxHash() {
		panic("witness change altered the transaction id")
	}
	return encodeTx(s.Tx, wire.WitnessEncoding), encodeTx(s.Tx, wire.BaseEncoding), encodeTx(other, wire.WitnessEncoding)
}

// Import submits the deposit proof with the given transaction bytes at the given height.
func (s *BTCSource) Import(raw []byte, height uint32, proof []byte) *nat.CallRecord {
	relayer := s.w.Vals[0]
	im := Import{Source: s.Spec.ID, Height: height, Extra: raw, Proof: proof}
	return s.w.E.Call(utils.CrossChainManagerContractAddress, "ImportOuterTransfer", im.Args(relayer.Addr), pk.Single(relayer))
}
