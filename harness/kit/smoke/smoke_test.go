package smoke

import (
	"math/rand"
	"os"
	"testing"

	"verifharness/kit/nat"
	"verifharness/kit/pk"

	"github.com/polynetwork/poly/native/service/governance/node_manager"
	"github.com/polynetwork/poly/native/service/utils"
)

func TestLedger(t *testing.T) {
	rng := rand.New(rand.NewSource(1))
	vals := pk.NewKeys(rng, 4)
	dir := pk.TempDir("smoke")
	defer os.RemoveAll(dir)
	c, err := pk.OpenChain(dir, 5, vals)
	if err != nil {
		t.Fatal(err)
	}
	for i := 0; i < 3; i++ {
		tx := c.InvokeTx(utils.NodeManagerContractAddress, "commitDpos", nil, pk.OperatorSigner(pk.SortKeys(vals)))
		b, res, err := c.AddBlock(nil, pk.BlockOpt{})
		_ = tx
		if err != nil {
			t.Fatal(err)
		}
		t.Log(b.Header.Height, res.Hash.ToHexString(), c.Store.GetCurrentBlockHeight())
	}
	c.Close()
	c, err = pk.OpenChain(dir, 5, vals)
	if err != nil {
		t.Fatal(err)
	}
	if c.Store.GetCurrentBlockHeight() != 3 {
		t.Fatal("height")
	}
	c.Close()
}

func TestNat(t *testing.T) {
	rng := rand.New(rand.NewSource(1))
	vals := pk.NewKeys(rng, 4)
	e := nat.New(5)
	if err := e.InitGovernance(vals); err != nil {
		t.Fatal(err)
	}
	v, err := node_manager.GetView(e.Service())
	t.Log(v, err, len(e.Dump(nil)), e.Digest(nil))
	e.Height = 10
	rec := e.Call(utils.NodeManagerContractAddress, "commitDpos", nil, nat.Operator(vals))
	t.Log(rec.Ok, rec.Err)
	v, err = node_manager.GetView(e.Service())
	t.Log(v, err)
	rec = e.Call(utils.NodeManagerContractAddress, "commitDpos", nil, pk.Single(vals[0]))
	t.Log(rec.Ok, rec.Err)
}
