// Package workloads holds native-contract workloads shared by the cross-cutting monitors (C16
// determinism, C17 storage confinement / key unambiguity). Each workload drives the REAL contracts
// through kit/nat with data from the synthetic-data packages; values that end up inside storage
// keys (chain ids, request ids, cross-chain ids, byte strings) are drawn from a Palette so that a
// monitor can steer them towards hostile shapes.
package workloads

import (
	"fmt"
	"math/big"
	"math/rand"

	"verifharness/kit"
	"verifharness/kit/pk"
	"verifharness/synth/ccmsynth"
	es "verifharness/synth/ethsynth"

	"github.com/polynetwork/poly/common"
	"github.com/polynetwork/poly/native/service/utils"
)

// Palette supplies the attacker-influenced values of a workload.
type Palette struct {
	ChainIDs []uint64 // used round-robin for side-chain ids
	Blobs    [][]byte // used for cross-chain ids, tx hashes, subjects ...
	ci, bi   int
}

// Chain returns the next chain id (or a default derived from def).
func (p *Palette) Chain(def uint64) uint64 {
	if p == nil || len(p.ChainIDs) == 0 {
		return def
	}
	v := p.ChainIDs[p.ci%len(p.ChainIDs)]
	p.ci++
	return v
}

// Blob returns the next byte string (or random bytes of length n).
func (p *Palette) Blob(rng *rand.Rand, n int) []byte {
	if p == nil || len(p.Blobs) == 0 {
		b := make([]byte, n)
		rng.Read(b)
		return b
	}
	v := p.Blobs[p.bi%len(p.Blobs)]
	p.bi++
	return append([]byte{}, v...)
}

// track classifies a call for the evidence.
func Track(r *kit.Run, ok bool, method string, nw, nn int) {
	if ok {
		r.Count("successful_calls", 1)
	} else {
		r.Count("failed_calls", 1)
	}
	r.Distinct(method, ok, nw, nn)
}

// Gov: governance, registry, relayers, vote-router imports, black/white, epochs, fees, signatures.
func Gov(r *kit.Run, rng *rand.Rand, pal *Palette) {
	vals := pk.NewKeys(rng, 4+rng.Intn(4))
	owner := pk.NewKey(rng)
	w, err := ccmsynth.NewWorld(3, vals, owner)
	if err != nil {
		r.Inconclusive("gov world: " + err.Error())
		return
	}
	w.E.Record = true
	w.E.Height = 50
	// side chains of several routers (vote router needs no foreign data)
	ids := make([]uint64, 6)
	seen := map[uint64]bool{}
	for i := range ids {
		ids[i] = pal.Chain(uint64(10 + i))
		for seen[ids[i]] || ids[i] == 0 {
			ids[i] += 1000003
		}
		seen[ids[i]] = true
	}
	for i, router := range []uint64{utils.VOTE_ROUTER, utils.VOTE_ROUTER, utils.ETH_ROUTER, utils.BSC_ROUTER, utils.COSMOS_ROUTER, utils.ONT_ROUTER} {
		spec := ccmsynth.ChainSpec{ID: ids[i], Router: router, Name: fmt.Sprintf("c%d", i), BlocksToWait: 1, CCMC: make([]byte, 20)}
		if err := w.RegisterAndApprove(spec); err != nil {
			r.Inconclusive("register: " + err.Error())
			return
		}
	}
	// relayers
	rel := pk.NewKeys(rng, 3)
	var addrs []common.Address
	for _, k := range rel {
		addrs = append(addrs, k.Addr)
	}
	if err := w.RegisterRelayers(owner, addrs, 0); err != nil {
		r.Count("gov_relayer_registration_failed", 1)
	}
	// vote-router imports: votes from validators and outsiders, repeats
	for i := 0; i < 6; i++ {
		cross := pal.Blob(rng, 8)
		im := ccmsynth.Import{Source: ids[0], Height: uint32(100 + i), Param: ccmsynth.RandParam(rng, ids[1], cross)}
		if pal != nil && len(pal.Blobs) > 0 {
			im.Param.TxHash = pal.Blob(rng, 32)
		}
		for _, v := range w.Vals {
			w.Vote(im, v)
		}
		w.Vote(im, owner)     // outsider
		w.Vote(im, w.Vals[0]) // replay after release
	}
	// black / white
	w.Black(ids[1])
	im := ccmsynth.Import{Source: ids[0], Height: 300, Param: ccmsynth.RandParam(rng, ids[1], []byte("blk"))}
	for _, v := range w.Vals {
		w.Vote(im, v)
	}
	w.White(ids[1])
	for _, v := range w.Vals {
		w.Vote(im, v)
	}
	// validator set changes and epoch change
	nk := pk.NewKey(rng)
	if err := w.AddValidator(nk); err != nil {
		r.Count("gov_add_validator_failed", 1)
	}
	w.E.Height += 10
	if err := w.CommitDpos(); err != nil {
		r.Count("gov_commit_dpos_failed", 1)
	}
	if len(w.Vals) > 5 {
		w.RemoveValidator(w.Vals[len(w.Vals)-1])
		w.E.Height += 10
		w.CommitDpos()
	}
	// fee votes
	for _, v := range w.Vals {
		w.UpdateFee(v, ids[2], 0, big.NewInt(int64(1000+rng.Intn(5))))
	}
	// signatures collected by the signature manager
	subject := pal.Blob(rng, 40)
	for _, v := range w.Vals {
		w.AddSignature(v, ids[2], subject, v.Sign(subject))
	}
	for _, rec := range w.E.Log {
		Track(r, rec.Ok, rec.Method, len(rec.WriteSet), len(rec.Notify))
	}
}

func flavorOf(name string) *es.Flavor {
	for _, f := range append(append([]*es.Flavor{}, es.PoSAFlavors...), es.PoSAFlavorsB...) {
		if f.Name == name {
			return f
		}
	}
	return nil
}

const sealChainID = 56

// evmWorkload: register, trust root, a short chain with a fork, valid and invalid deposit imports.
func EVM(r *kit.Run, rng *rand.Rand, pal *Palette, name string, chainID uint64) {
	e := es.NewEnv(rng, 3)
	e.Record = true
	chainID = pal.Chain(chainID)
	target := pal.Chain(900)
	if target == chainID {
		target++
	}
	if err := e.RegisterSideChain(target, utils.ETH_ROUTER, "target", 1, make([]byte, 20), nil); err != nil {
		r.Inconclusive("register target: " + err.Error())
		return
	}
	var ccmc es.Addr
	rng.Read(ccmc[:])
	st := es.NewState(rng, ccmc, 5)
	p := es.RandTxParam(rng, target)
	slot := es.RandHash(rng)
	st.Commit(ccmc, slot, p.Serialize())
	root := st.Root()
	var heights []uint64
	if name == "eth" {
		if err := e.RegisterSideChain(chainID, utils.ETH_ROUTER, name, 1, ccmc[:], nil); err != nil {
			r.Inconclusive("register: " + err.Error())
			return
		}
		forks := es.ForksFor(e.NetID)
		g := es.NewRoot(rng, forks, 12000000, big.NewInt(1500000000000), 12000000)
		e.SyncGenesis(chainID, g.JSON())
		e.SyncGenesis(chainID, g.JSON()) // second installation attempt
		parent := g
		var second *es.Hdr
		for i := 0; i < 6; i++ {
			dt := uint64(10 + rng.Intn(5))
			if i == 2 {
				// one slow block (the difficulty formula's -99 clamp branch) followed by ordinary ones
				dt = 1000 + uint64(rng.Intn(4000))
			}
			h := es.Child(rng, forks, parent, es.ChildOpt{Root: &root, Dt: dt})
			if rec := e.SyncHeaders(chainID, h.JSON()); i == 2 && rec.Ok {
				r.Count("eth_slow_block_header_accepted", 1)
			}
			if i == 1 {
				second = parent
			}
			parent = h
			heights = append(heights, h.Number)
		}
		// a fork sibling and a header violating a rule
		if second != nil {
			f := es.Child(rng, forks, second, es.ChildOpt{Root: &root, Dt: 30})
			e.SyncHeaders(chainID, f.JSON())
		}
		bad := es.Child(rng, forks, parent, es.ChildOpt{Root: &root, Dt: 12})
		bad.Difficulty = new(big.Int).Add(bad.Difficulty, big.NewInt(1))
		e.SyncHeaders(chainID, bad.JSON())
		// a second eth chain below London (the legacy difficulty formula), again with one slow block
		// (the -99 clamp branch) between ordinary ones
		if forks.London > 400000 {
			pre := chainID + 7
			if pre == target {
				pre++
			}
			if err := e.RegisterSideChain(pre, utils.ETH_ROUTER, name+"-pre-london", 1, ccmc[:], nil); err == nil {
				g2 := es.NewRoot(rng, forks, forks.London-300000-uint64(rng.Intn(50000)), big.NewInt(1500000000000), 8000000)
				e.SyncGenesis(pre, g2.JSON())
				par := g2
				for i := 0; i < 5; i++ {
					dt := uint64(10 + rng.Intn(5))
					if i == 1 {
						dt = 1000 + uint64(rng.Intn(4000))
					}
					h := es.Child(rng, forks, par, es.ChildOpt{Root: &root, Dt: dt})
					rec := e.SyncHeaders(pre, h.JSON())
					if rec.Ok {
						r.Count("eth_pre_london_header_accepted", 1)
						if i == 1 {
							r.Count("eth_pre_london_slow_block_header_accepted", 1)
						}
					}
					par = h
				}
			}
		}
	} else {
		f := flavorOf(name)
		if f == nil {
			r.Count("router_flavor_missing:"+name, 1)
			return
		}
		v := 1 + rng.Intn(4)
		c, gen := es.NewPoSAChain(rng, f, sealChainID, 1+rng.Intn(v), v, v, 6000000)
		if err := e.RegisterSideChain(chainID, f.Router, name, 1, ccmc[:], f.ExtraInfoJSONEpoch(sealChainID, c.Epoch)); err != nil {
			r.Inconclusive("register: " + err.Error())
			return
		}
		e.SyncGenesis(chainID, gen)
		e.SyncGenesis(chainID, gen)
		parent := c.M.Root
		for i := 0; i < 6; i++ {
			h := c.Next(rng, parent, es.HonestOpt{Root: &root})
			if h == nil {
				break
			}
			rec := e.SyncHeaders(chainID, h.JSON())
			if !rec.Ok {
				break
			}
			parent = c.M.Add(parent, h)
			heights = append(heights, h.Number)
		}
		// a header with a corrupted seal
		if h := c.Next(rng, parent, es.HonestOpt{Root: &root}); h != nil {
			h.Extra[len(h.Extra)-3] ^= 0x55
			e.SyncHeaders(chainID, h.JSON())
		}
	}
	if len(heights) >= 2 {
		pr := st.Prove(ccmc, slot)
		e.Import(chainID, uint32(heights[0]), pr.JSON(), p.Serialize())    // valid
		e.Import(chainID, uint32(heights[0]), pr.JSON(), p.Serialize())    // replay
		e.Import(chainID, uint32(heights[0])-50, pr.JSON(), p.Serialize()) // below the trust root
		bp := pr.Clone()
		q := es.RandTxParam(rng, target)
		e.Import(chainID, uint32(heights[1]), bp.JSON(), q.Serialize()) // message not committed
	}
	for _, rec := range e.Log {
		Track(r, rec.Ok, name+":"+rec.Method, len(rec.WriteSet), len(rec.Notify))
	}
	r.Count("router_workload:"+name, 1)
}
